#!/usr/bin/env python3
"""Take a seeded defect produced by an independent sub-agent, CONFIRM it in a scratch worktree
(test suite still passes with the patch, demonstration fails with it and passes without it), store
it under /verif/seeded/<name>/ and run the property's check against it.

usage: tools/seed_intake.py <property> <name> <dir with patch.diff/demo.rs[/demo.patch]/NOTES.md> ["needs" text]
/repo is never modified: everything happens in scratch copies (the check is pointed at the patched
copy through VERIF_REPO)."""
import json, os, re, shutil, subprocess, sys, tempfile, time

VERIF = os.path.dirname(os.path.dirname(os.path.abspath(__file__)))


def sh(cmd, cwd, timeout=1800, env=None):
    e = dict(os.environ, CARGO_NET_OFFLINE="true")
    if env:
        e.update(env)
    p = subprocess.run(cmd, cwd=cwd, shell=True, capture_output=True, text=True, timeout=timeout, env=e)
    return p.returncode, p.stdout + p.stderr


def copy_repo(dst):
    shutil.copytree("/repo", dst, ignore=lambda p, n: [x for x in n if x in ("target", ".git")] if p == "/repo" else [])


def run_demo(repo, src, target):
    """returns (ok, summary)"""
    demo_rs = os.path.join(src, "demo.rs")
    demo_patch = os.path.join(src, "demo.patch")
    results = []
    if os.path.exists(demo_patch):
        rc, out = sh("git init -q . 2>/dev/null; git apply --whitespace=nowarn %s" % demo_patch, repo)
        if rc != 0:
            rc, out = sh("patch -p1 < %s" % demo_patch, repo)
        results.append(("apply demo.patch", rc))
    inside = os.path.exists(demo_patch) and os.path.exists(demo_rs) and "use super::" in open(demo_rs).read()
    if os.path.exists(demo_rs) and not inside:   # (a demo that lives inside a source file is carried by demo.patch alone)
        os.makedirs(os.path.join(repo, "tests"), exist_ok=True)
        shutil.copy(demo_rs, os.path.join(repo, "tests", "seeded_demo.rs"))
    rc, out = sh("cargo test --offline --no-fail-fast 2>&1 | grep -E '^test result|FAILED|panicked' | head -20", repo,
                 env={"CARGO_TARGET_DIR": target})
    fails = sum(int(x) for x in re.findall(r"(\d+) failed", out))
    passed = sum(int(x) for x in re.findall(r"(\d+) passed", out))
    return fails, passed, out[-1500:]


def main():
    pid, name, src = sys.argv[1], sys.argv[2], sys.argv[3]
    needs = sys.argv[4] if len(sys.argv) > 4 else ""
    dest = os.path.join(VERIF, "seeded", name)
    os.makedirs(dest, exist_ok=True)
    for f in ("patch.diff", "demo.rs", "demo.patch", "NOTES.md"):
        if os.path.exists(os.path.join(src, f)) and os.path.abspath(src) != os.path.abspath(dest):
            shutil.copy(os.path.join(src, f), os.path.join(dest, f))
    work = tempfile.mkdtemp(prefix="hpbf-seed-")
    if not needs and os.path.exists(os.path.join(dest, "meta.json")):
        needs = json.load(open(os.path.join(dest, "meta.json"))).get("needs_to_manifest", "")
    meta = {"property": pid, "name": name, "needs_to_manifest": needs, "confirmed_at": time.strftime("%Y-%m-%d %H:%M"),
            "ran": []}
    if os.environ.get("VERIF_SEED_RECHECK") and os.path.exists(os.path.join(dest, "meta.json")):
        # regression mode: the seed was confirmed before; only re-run the check against the patched tree
        meta = json.load(open(os.path.join(dest, "meta.json")))
        try:
            pat = os.path.join(work, "patched")
            copy_repo(pat)
            rc, out = sh("patch -p1 --no-backup-if-mismatch < %s" % os.path.join(dest, "patch.diff"), pat)
            if rc != 0:
                print(json.dumps({"name": name, "recheck": "patch no longer applies"}))
                return
            ev = os.path.join(work, "evidence")
            t0 = time.time()
            p = subprocess.run([os.path.join(VERIF, "bin", "check"), pid], capture_output=True, text=True,
                               env=dict(os.environ, VERIF_REPO=pat, VERIF_EVIDENCE_DIR=ev, VERIF_REPLAY_DIR=os.path.join(work, "replays")))
            lines = [l for l in p.stdout.split("\n") if l.startswith(("VIOLATION", "UNDECIDED", "property"))]
            meta["check"] = {"cmd": "VERIF_REPO=<patched copy> bin/check %s" % pid, "exit": p.returncode,
                             "verdict": {0: "NOT DETECTED", 1: "DETECTED (VIOLATION)", 2: "UNDECIDED"}.get(p.returncode, str(p.returncode)),
                             "lines": [re.sub(r"/tmp/hpbf-seed-\w+/", "", l) for l in lines][:8], "wall_s": round(time.time() - t0),
                             "rechecked_at": time.strftime("%Y-%m-%d %H:%M")}
        finally:
            shutil.rmtree(work, ignore_errors=True)
        json.dump(meta, open(os.path.join(dest, "meta.json"), "w"), indent=1)
        print(json.dumps({"name": name, "property": pid}), meta["check"]["verdict"], meta["check"]["lines"][:1])
        return
    try:
        target = os.path.join(work, "target")
        # 1. baseline: suite + demo pass without the patch
        base = os.path.join(work, "base")
        copy_repo(base)
        f0, p0, o0 = run_demo(base, dest, target)
        meta["ran"].append({"cmd": "cargo test --offline --no-fail-fast (original tree + demonstration)", "failed": f0, "passed": p0})
        # 2. patched: suite passes, demo fails
        pat = os.path.join(work, "patched")
        copy_repo(pat)
        rc, out = sh("patch -p1 --no-backup-if-mismatch < %s" % os.path.join(dest, "patch.diff"), pat)
        meta["ran"].append({"cmd": "patch -p1 < patch.diff", "rc": rc})
        if rc != 0:
            meta["confirmed"] = False
            meta["why"] = "patch does not apply: " + out[-300:]
        else:
            rc, out = sh("cargo test --offline --no-fail-fast 2>&1 | grep -E '^test result' | head", pat, env={"CARGO_TARGET_DIR": target})
            suite_fail = sum(int(x) for x in re.findall(r"(\d+) failed", out))
            suite_pass = sum(int(x) for x in re.findall(r"(\d+) passed", out))
            meta["ran"].append({"cmd": "cargo test --offline --no-fail-fast (patched tree, existing suite only)", "failed": suite_fail, "passed": suite_pass})
            pat2 = os.path.join(work, "patched_demo")
            shutil.copytree(pat, pat2)
            f1, p1, o1 = run_demo(pat2, dest, target)
            meta["ran"].append({"cmd": "cargo test --offline --no-fail-fast (patched tree + demonstration)", "failed": f1, "passed": p1, "tail": o1[-600:]})
            meta["confirmed"] = (f0 == 0 and p0 > 0 and suite_fail == 0 and suite_pass >= 186 and f1 > 0)
            # 3. the check against the patched tree
            ev = os.path.join(work, "evidence")
            t0 = time.time()
            p = subprocess.run([os.path.join(VERIF, "bin", "check"), pid], capture_output=True, text=True,
                               env=dict(os.environ, VERIF_REPO=pat, VERIF_EVIDENCE_DIR=ev, VERIF_REPLAY_DIR=os.path.join(work, "replays")))
            lines = [l for l in p.stdout.split("\n") if l.startswith(("VIOLATION", "UNDECIDED", "property"))]
            meta["check"] = {"cmd": "VERIF_REPO=<patched copy> bin/check %s" % pid, "exit": p.returncode,
                             "verdict": {0: "NOT DETECTED", 1: "DETECTED (VIOLATION)", 2: "UNDECIDED"}.get(p.returncode, str(p.returncode)),
                             "lines": [re.sub(r"/tmp/hpbf-seed-\w+/", "", l) for l in lines][:8], "wall_s": round(time.time() - t0)}
    finally:
        shutil.rmtree(work, ignore_errors=True)
    json.dump(meta, open(os.path.join(dest, "meta.json"), "w"), indent=1)
    print(json.dumps({k: meta[k] for k in ("name", "property", "confirmed") if k in meta}), meta.get("check", {}).get("verdict"),
          meta.get("check", {}).get("lines"))


main()
