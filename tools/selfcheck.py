#!/usr/bin/env python3
"""MANIFEST.setup_cmd: nothing to build (the framework is Python + the pre-installed verifiers);
verify that the tools the checks need are present and run offline."""
import shutil, subprocess, sys
ok = True
for tool in ("verus", "cargo", "cargo-kani", "cbmc", "python3"):
    p = shutil.which(tool)
    print("%-12s %s" % (tool, p or "MISSING"))
    ok &= bool(p)
sys.exit(0 if ok else 1)
