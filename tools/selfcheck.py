#!/usr/bin/env python3
"""MANIFEST.setup_cmd: nothing to build (the framework is Python + the pre-installed verifiers);
verify that the tools the checks need are present and run offline, and self-test the output parsers."""
import os, shutil, subprocess, sys
ok = True
for tool in ("verus", "cargo", "cargo-kani", "cbmc", "python3"):
    p = shutil.which(tool)
    print("%-12s %s" % (tool, p or "MISSING"))
    ok &= bool(p)
# Miri (unit n5) lives on the nightly toolchain
try:
    r = subprocess.run(["cargo", "+nightly", "miri", "--version"], capture_output=True, text=True, timeout=60)
    print("%-12s %s" % ("miri", r.stdout.strip() or "MISSING"))
    ok &= r.returncode == 0
except Exception as e:  # noqa: BLE001
    print("miri         MISSING (%s)" % e)
    ok = False
sys.path.insert(0, os.path.dirname(os.path.abspath(__file__)))
import kani_run  # noqa: E402
sample = ('Check 7: f.assertion.1\n\t - Status: FAILURE\n\t - Description: "assertion failed: a ==\nb.wrapping_add(1)"\n\t - Location: src/x.rs:1:1 in function f\n'
          'Check 8: f.assertion.2\n\t - Status: SUCCESS\n\t - Description: "assertion failed: ok"\n\t - Location: src/x.rs:2:1 in function f\n\nVERIFICATION:- FAILED\n')
p = kani_run.parse_harness_output(sample)
st, why = kani_run.classify(p, "src/x.rs")
good = p["n_checks"] == 2 and st == "failed" and "a == b.wrapping_add(1)" in why
print("%-12s %s" % ("kani parser", "ok" if good else "BROKEN: %s %s" % (st, why)))
ok &= good
sys.exit(0 if ok else 1)
