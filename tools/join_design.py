#!/usr/bin/env python3
"""DESIGN.md = the plan (Part I, written before the code) + DESIGN-IMPL.md (Part II, the state after
the build).  Re-appends Part II after the marker so that DESIGN.md alone is complete."""
import os
V = os.path.dirname(os.path.dirname(os.path.abspath(__file__)))
MARK = "\n<!-- PART II: generated from DESIGN-IMPL.md by tools/join_design.py -->\n"
d = open(os.path.join(V, "DESIGN.md")).read().split(MARK)[0].rstrip("\n") + "\n"
impl = open(os.path.join(V, "DESIGN-IMPL.md")).read()
head = ("\n---------------------------------------------------------------------------------------------------\n\n"
        "# PART II — state after the build (this part is current where it disagrees with Part I)\n\n")
open(os.path.join(V, "DESIGN.md"), "w").write(d + MARK + head + impl.replace("# DESIGN-IMPL — ", "## ", 1).replace("\n## ", "\n### ").replace("\n### 1.", "\n#### 1.").replace("\n### 3.", "\n#### 3."))
print("DESIGN.md:", len(open(os.path.join(V, "DESIGN.md")).read().split("\n")), "lines")
