"""Which verification units decide which property, and how the result is labelled.

A unit is either ("verus", <dir under contracts/verus>) or ("kani", <module under contracts/kani>).
`fn_filter` (regex on function keys) restricts which functions of a Verus unit are reported under a
property; the whole unit is always run (a proof costs seconds).
"""

PROPS = {}


def prop(pid, units, level, technique, design_ref, text, note):
    PROPS[pid] = {"units": units, "level": level, "technique": technique, "design_ref": design_ref,
                  "text": text, "note": note}


prop("C14",
     units=[("verus", "u1_cell", None), ("kani", "u1k_cell", None)],
     level="proof",
     technique="Verus deductive proof of trait-level contracts on the real CellType code (all four widths), plus loop-free/width-bounded Kani contract harnesses as counterexample twins",
     design_ref="DESIGN.md section 4-U1, 5-C14",
     text="Unbounded proof: wrapping_div/inv/pow and the conversions are verified against mathematical contracts generic in the width; each of the four impls is verified against the trait contracts.",
     note="Trusted: Verus+Z3, vstd, assume_specification of uN::{checked_shl,checked_shr,wrapping_neg}, the extractor's desugarings D1/D3.")

prop("C18",
     units=[("kani", "u3_smallvec", None)],
     level="model_checking",
     technique="Kani per-operation contract harnesses on the real SmallVec from arbitrary well-formed pre-states (inductive step), Vec model + drop accounting",
     design_ref="DESIGN.md section 4-U3, 5-C18",
     text="Complete for the inline representation (N in {1,2}, all lengths, all element values); bounded in heap-side length; histories unbounded by induction over arbitrary pre-states.",
     note="Trusted: Kani/CBMC, std Vec and slice::sort, Kani's allocator model. Heap-side length bounded (quick 3, thorough 6).")
