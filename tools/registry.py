"""Which verification units decide which property, and how the result is labelled.

A unit is either ("verus", <dir under contracts/verus>) or ("kani", <module under contracts/kani>).
`fn_filter` (regex on function keys) restricts which functions of a Verus unit are reported under a
property; the whole unit is always run (a proof costs seconds).
"""

PROPS = {}


def prop(pid, units, level, technique, design_ref, text, note):
    PROPS[pid] = {"units": units, "level": level, "technique": technique, "design_ref": design_ref,
                  "text": text, "note": note}


prop("C14",
     units=[("verus", "u1_cell", None), ("kani", "u1k_cell", None)],
     level="proof",
     technique="Verus deductive proof of trait-level contracts on the real CellType code (all four widths), plus loop-free/width-bounded Kani contract harnesses as counterexample twins",
     design_ref="DESIGN.md section 4-U1, 5-C14",
     text="Unbounded proof: wrapping_div/inv/pow and the conversions are verified against mathematical contracts generic in the width; each of the four impls is verified against the trait contracts.",
     note="Trusted: Verus+Z3, vstd, assume_specification of uN::{checked_shl,checked_shr,wrapping_neg}, the extractor's desugarings D1/D3.")

prop("C18",
     units=[("kani", "u3_smallvec", None)],
     level="model_checking",
     technique="Kani per-operation contract harnesses on the real SmallVec from arbitrary well-formed pre-states (inductive step), Vec model + drop accounting",
     design_ref="DESIGN.md section 4-U3, 5-C18",
     text="Complete for the inline representation (N in {1,2}, all lengths, all element values); bounded in heap-side length; histories unbounded by induction over arbitrary pre-states.",
     note="Trusted: Kani/CBMC, std Vec and slice::sort, Kani's allocator model. Heap-side length bounded (quick 3, thorough 6).")

prop("C09",
     units=[("kani", "u2_tape", None)],
     level="model_checking",
     technique="Kani per-operation contract harnesses on the real Memory over an abstract view (total map), from arbitrary well-formed pre-states: one-step induction over call histories",
     design_ref="DESIGN.md section 4-U2, 5-C09",
     text="Every Memory operation is verified against its effect on the abstract view at a fresh symbolic index (frame included) from ANY well-formed state within the size bound; histories are unbounded by induction. Loop-free operations (read, check, mov) are complete over offsets in +-2^62.",
     note="Bounded: buffer size, pointer slack and offsets of allocating calls (quick: 4 cells / 6 / 5; thorough: 8 / 12 / 10). Pointer API only for in-block pointers (Kani pointer model). Trusted: Kani's allocator model.")

prop("C17",
     units=[("kani", "u2_tape", None), ("kani", "u2b_bccontext", None)],
     level="model_checking",
     technique="Kani contract harnesses with std::alloc::alloc_zeroed replaced by a contract-level may-fail allocator (symbolic failure) on the real growth path",
     design_ref="DESIGN.md section 4-U2, 5-C17",
     text="From any well-formed tape state, whichever growth request fails and in whichever direction: the call either does not return (abort) or returns with an intact tape, and Kani's pointer checks show no access through a null or freed block.",
     note="Bounded in buffer size like C09. Trusted: the allocator contract (block of the requested layout or null), handle_alloc_error modelled as non-returning.")
