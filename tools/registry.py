"""Which verification units decide which property, and how the result is labelled.

A unit is ("verus", <dir under contracts/verus>), ("kani", <module under contracts/kani>) or
("native", <module under contracts/native>) -- the last kind is a BOUNDED STAND-IN (exhaustive native
enumeration of a finite input domain of one function against its contract) for functions neither
verifier can take; it is labelled bounded in the evidence and never counted as proved.
`fn_filter` (regex on function keys) restricts which functions of a Verus unit are reported under a
property; the whole unit is always run (a proof costs seconds).
"""

PROPS = {}


def prop(pid, units, level, technique, design_ref, text, note):
    PROPS[pid] = {"units": units, "level": level, "technique": technique, "design_ref": design_ref,
                  "text": text, "note": note}


prop("C14",
     units=[("verus", "u1_cell", None), ("kani", "u1k_cell", None), ("verus", "u10_optloop", None), ("native", "n4_loop_motion", None), ("native", "n6_cell_helpers", None), ("native", "n8_trip_counts", None)],
     level="proof",
     technique="Verus deductive proof of trait-level contracts on the real CellType code (all four widths), plus loop-free/width-bounded Kani contract harnesses as counterexample twins",
     design_ref="DESIGN.md section 4-U1, 5-C14",
     text="Unbounded proof: wrapping_div/inv/pow and the conversions are verified against mathematical contracts generic in the width; each of the four impls is verified against the trait contracts. Consumer obligation (unit u10): OptRebuild::analyze_loop, the one place where wrapping_div / wrapping_inv decide a loop's trip count, reports the LEAST k with m + k*inc == 0 (mod 2^bits), reports 'infinite' only when no k exists, and for an unknown initial value a count x with x*(-inc) == [cond]. Also proved (u10): opt::wrapping_geometric_sum(mul, count) == 1 + mul + ... + mul^(count-1) (mod 2^bits), the helper the geometric closed form of loop_motion is built on.",
     note="Trusted: Verus+Z3, vstd, the extractor's desugarings D1/D3/D10. The assume_specification clauses about uN::{checked_shl,checked_shr,wrapping_neg} are no longer trusted: each is discharged by a generated loop-free Kani harness over the full domain (u1k_stdspec_*, clause text parsed from the Verus unit on every run). In u10 the analysis state is reduced to three fields (D10), its knowledge comes through three uninterpreted boundary functions, Expr is opaque with the u4 contracts, and Expr::mul's contract is ASSUMED. The second consumer (geometric / arithmetic closed forms in loop_motion: HashSet/HashMap parameters, closures) is covered ONLY by a BOUNDED STAND-IN (unit n4_loop_motion: the real function on enumerated loop bodies, u8 exhaustive over multiplier and trip count; counted separately, never as proved). A BOUNDED native twin (unit n6_cell_helpers: the same contracts evaluated exhaustively at u8 and on boundary + pseudo-random operands at 16/32/64 bits) runs next to the proof so that a REWRITTEN helper, for which the shape-anchored proof is only UNDECIDED, still gets a verdict; counted separately, never as proved.")

prop("C18",
     units=[("kani", "u3_smallvec", None)],
     level="model_checking",
     technique="Kani per-operation contract harnesses on the real SmallVec from arbitrary well-formed pre-states (inductive step), Vec model + drop accounting",
     design_ref="DESIGN.md section 4-U3, 5-C18",
     text="Complete for the inline representation (N in {1,2}, all lengths, all element values); bounded in heap-side length; histories unbounded by induction over arbitrary pre-states.",
     note="Trusted: Kani/CBMC, std Vec and slice::sort, Kani's allocator model. Heap-side length bounded (quick 3, thorough 6).")

prop("C09",
     units=[("kani", "u2_tape", None), ("native", "n10_tape_far", None)],
     level="model_checking",
     technique="Kani per-operation contract harnesses on the real Memory over an abstract view (total map), from arbitrary well-formed pre-states: one-step induction over call histories",
     design_ref="DESIGN.md section 4-U2, 5-C09",
     text="Every Memory operation is verified against its effect on the abstract view at a fresh symbolic index (frame included) from ANY well-formed state within the size bound; histories are unbounded by induction. Loop-free operations (read, check, mov) are complete over offsets in +-2^62.",
     note="Bounded: buffer size, pointer slack and offsets of allocating calls (quick: 4 cells / 6 / 5; thorough: 8 / 12 / 10). Pointer API only for in-block pointers (Kani pointer model). Trusted: Kani's allocator model. The magnitudes those harnesses cannot reach (a single growth step of millions of cells) are covered ONLY by a BOUNDED STAND-IN (unit n10_tape_far: operation sequences with offsets up to 3 * 2^20 cells against the abstract view; counted separately, never as proved).")

prop("C17",
     units=[("kani", "u2_tape", None), ("kani", "u2b_bccontext", None)],
     level="model_checking",
     technique="Kani contract harnesses with std::alloc::alloc_zeroed replaced by a contract-level may-fail allocator (symbolic failure) on the real growth path",
     design_ref="DESIGN.md section 4-U2, 5-C17",
     text="From any well-formed tape state, whichever growth request fails and in whichever direction: the call either does not return (abort) or returns with an intact tape, and Kani's pointer checks show no access through a null or freed block.",
     note="Bounded in buffer size like C09. Trusted: the allocator contract (block of the requested layout or null), handle_alloc_error modelled as non-returning.")

prop("C04",
     # u7 is the property's own proof; u1_cell and u2_tape discharge the callee contracts it assumes
     # (a defect in CellType::from_u8 or Memory::write breaks C04 without touching inplace.rs)
     units=[("verus", "u7_inplace", None),
            ("verus", "u1_cell", r"fn (from_u8|into_u8|wrapping_add|from_u64|into_u64)$"),
            # loop-free full-domain Kani twins of the conversion contracts: a verdict (with operands) when the
            # shape-anchored Verus proof of a REWRITTEN conversion is only UNDECIDED
            ("kani", "u1k_cell", None),
            ("kani", "u2_tape", None), ("native", "n7_inplace", None)],
     level="proof",
     technique="Verus deductive proof: lock-step simulation invariant between the real InplaceInterpreter::execute_in (extracted verbatim) and a canonical Brainfuck small-step specification",
     design_ref="DESIGN.md section 4-U7, 5-C04",
     text="Unbounded proof for every program shorter than 2^31 bytes, every input/fault oracle and every width (generic C): each outer-loop iteration is exactly one canonical step; the event log on return is the log of the canonical run, and Ok(true) is returned only when that run has halted; a third extraction (LIMITED=false, total) proves TERMINATION whenever the program is balanced and its canonical run halts (measure N - n). The callee contracts it relies on are discharged in the same check: CellType conversions/addition (Verus, unbounded) and the tape / Context operations (Kani, bounded in tape size).",
     note="Assumes the tape view contracts (checked, bounded, in unit u2_tape), the Context::input/output oracle contracts (u2_tape) and the CellType ring contracts (proved in u1_cell; copied verbatim). Trusted: the canonical semantics in the unit template, vstd's str::as_bytes spec, Verus+Z3. A BOUNDED native twin (unit n7_inplace: the real interpreter through the public API on all balanced programs of <= 5 commands and a long-run family, against canonical semantics written out in the test) runs next to the proof so that a RESTRUCTURED interpreter loop, for which the shape-anchored proof is only UNDECIDED, still gets a verdict; counted separately, never as proved.")

prop("C07",
     units=[("verus", "u7_inplace", r"#limited"), ("kani", "u5_bcint_ops", None), ("kani", "u6_jit", None), ("kani", "u8_irint", None), ("native", "n1_emit", None), ("native", "n7_inplace", None), ("native", "n9_bcint_exec", None)],
     level="model_checking",
     technique="Verus deductive proof of the LIMITED=true monomorphisation of the real in-place interpreter (simulation invariant + termination measure); Kani contract harnesses for the bytecode interpreter's limit op",
     design_ref="DESIGN.md section 4-U7, 5-C07",
     text="In-place backend (unbounded proof): budget-limited execution terminates (lexicographic measure), reports finished only when the canonical run halted, and its log is always a canonical prefix. Bytecode interpreter (Kani, per op): limit charges the budget, stops with registers spilled at budget <= cost and returns the next ip. IR interpreter (Kani, concrete block shapes): loops incl. nested ones stop with 'not finished' exactly at budget exhaustion and run nothing afterwards. JIT (Kani over all machine states): the emitted budget check terminates iff budget < 2.",
     note="Proof covers the in-place interpreter; the other back ends are covered per mechanism and bounded. Placement of limit ops by build_threaded_code: bounded stand-in (native enumeration of programs of <= 3 instructions). Not decided: 'effectively unlimited budget reports finished' for the compiled back ends (needs C01-C03 in full); irint Calc arm. A BOUNDED native twin (unit n7_inplace: the real interpreter through the public API on all balanced programs of <= 5 commands and a long-run family, against canonical semantics written out in the test) runs next to the proof so that a RESTRUCTURED interpreter loop, for which the shape-anchored proof is only UNDECIDED, still gets a verdict; counted separately, never as proved.")

prop("C08",
     units=[("verus", "u7_inplace", None), ("kani", "u2_tape", None), ("kani", "u5_bcint_ops", None), ("kani", "u6b_jit_shims", None), ("kani", "u8_irint", None), ("kani", "u6_jit", None), ("native", "n7_inplace", None)],
     level="model_checking",
     technique="Verus proof of the in-place stop path (stopped configuration, no later event) + loop-free Kani contract harnesses for Context::input/output result mapping over all reader/writer outcomes",
     design_ref="DESIGN.md section 4-U7/U2, 5-C08",
     text="Context::input/output map every reader/writer outcome as specified (complete, loop-free); the in-place interpreter stops at the failing operation with the canonical prefix and returns Ok (unbounded proof); bytecode input/output ops return the null ip without a store; the IR interpreter propagates a failure out of nested blocks with no later event (concrete block shapes); the JIT's runtime shims report input and output failure to the generated code.",
     note="The JIT's generated call sequences around Inp/Out (argument set-up, push/pop symmetry, alignment, jump to the termination path iff the shim reports failure) are decided by unit u6 for enumerated cell offsets / live masks over all machine states. NOT decided: llvmjit (feature off); irint Calc arm. A BOUNDED native twin (unit n7_inplace: the real interpreter through the public API on all balanced programs of <= 5 commands and a long-run family, against canonical semantics written out in the test) runs next to the proof so that a RESTRUCTURED interpreter loop, for which the shape-anchored proof is only UNDECIDED, still gets a verdict; counted separately, never as proved.")

prop("C02",
     units=[("kani", "u5_bcint_ops", None), ("kani", "u9_bc_passes", None), ("native", "n1_emit", None), ("native", "n2_bc_passes", None), ("native", "n9_bcint_exec", None)],
     level="model_checking",
     technique="Kani contract harnesses calling each threaded-op instantiation of the real bcint::ops directly on a symbolic machine state and comparing the whole post-state with a bytecode step semantics",
     design_ref="DESIGN.md section 4-U5, 5-C02",
     text="Interpreter-op layer only: every op instantiation exercised computes bc_step over the documented stream layout for all cell/temp/register contents, offsets and immediates (complete per instantiation); instantiations are enumerated (quick: seeded sample; thorough: all 1116 at u8).",
     note="Also decided: the generator passes parameter_reordering, strip_noops, record_branch_targets, count_temps (unit u9). BOUNDED STAND-IN (native enumeration, not a proof): ops::emit (op selection and operand word order for all 1116 operand-kind combinations) and build_threaded_code (limit placement, branch patching) -- Kani needs > 65 GB for the op_match! expansion. The other bytecode-generator passes (emit_block, dead_store_elim, allocate_temps, zeroing_move_detection: std hash collections, Kani does not finish, Verus rejects) are covered ONLY by a BOUNDED STAND-IN (unit n2_bc_passes: zeroing_move_detection on all sequences of <= 3 instructions over a small alphabet; translate end to end on a fixed pseudo-random sample of structured IR programs against bc_step / IR semantics) -- counted separately, never as proved. NOT decided: the optimiser in front (C01), the release-build tail-call dispatcher. A defect there is not detected by this check.")

prop("C06",
     units=[("kani", "u2_tape", None), ("kani", "u5_bcint_ops", None), ("kani", "u2b_bccontext", None), ("kani", "u6b_jit_shims", None), ("kani", "u6_jit", None), ("verus", "u11_window", None), ("kani", "u9_bc_passes", None), ("native", "n2_bc_passes", None), ("native", "n5_checked_moves", None)],
     level="model_checking",
     technique="Kani contract harnesses: Memory operations over the abstract view from arbitrary well-formed states; window invariant and in-window dereferences of every threaded op (buffer == window, so any stray access is out of bounds for CBMC)",
     design_ref="DESIGN.md section 4-U2/U5, 5-C06",
     text="Tape API: every operation stays inside the owned block and preserves the view across growth in either or both directions (bounded in size, unbounded in history). Threaded ops: window invariant established by enter_ops, preserved by the checked right move incl. growth, every operand access inside the window; temporaries array sized max(temps,2).",
     note="Relative to C11 (operands inside the declared window, temp index < temps). Proved (Verus unit u11_window): the two primitives of the window analysis, bc::Analysis::{accessed, written}, put every offset they are given inside [min_accessed, max_accessed] and only ever grow the window. The traversal that feeds them (Analysis::analyze) and the rest of C11 are not discharged by a verifier -- covered ONLY by a BOUNDED STAND-IN (unit n2_bc_passes/translate_shape: the window, temporaries count and branch targets of the bytecode bc::CodeGen::translate generates for a fixed pseudo-random sample of IR programs; counted separately, never as proved). The JIT's checked move (probe of the far window edge against the context's bounds, extend call, pointer re-basing) is decided by unit u6 over all tape geometries. The bytecode interpreter's checked LEFT move/scan that grows below (pointer before the allocation start is not representable in CBMC) and its checked scan loop (Kani timeout) are covered ONLY by a BOUNDED STAND-IN: unit n5_checked_moves runs the real movl/movr/scanl/scanr::<_, true> under MIRI on enumerated tape geometries, windows, shifts and run lengths (Miri reports any access outside a live allocation) and checks pointer displacement, view preservation and window accessibility; counted separately, never as proved. Likewise unit n8_trip_counts for the consumer: the trip count of every 8-bit counting loop (all start values x all increments, boundary pairs at the wider widths), observed end to end on the optimised program (IR and bytecode interpreters, levels 1-3).")

prop("C10",
     units=[("kani", "u5_bcint_ops", None), ("kani", "u6_jit", None), ("native", "n9_bcint_exec", None)],
     level="model_checking",
     technique="Kani contract harnesses on the SAFE=false instantiations of the real move/scan ops: same post-state as the checked ops and no access outside the allocation when the destination window lies inside it",
     design_ref="DESIGN.md section 4-U5, 5-C10",
     text="Op level only: unchecked movl/movr/scanl/scanr move the pointer by the shift, preserve the view and the window invariant, and touch nothing outside the block, whenever every visited window lies inside the allocation.",
     note="NOT decided: that a bounded canonical pointer excursion keeps the optimised program inside the margin (needs C01), the CLI's pre-allocation (C16), the JIT's unchecked mode unless unit u6 is listed. How the unchecked ops are strung together (op selection in build_threaded_code / emit, branch patching, any fused op) is covered ONLY by a BOUNDED STAND-IN (unit n9_bcint_exec: BcInterpreter::execute_unsafe on enumerated small bytecode programs with a pre-grown tape, against bc_step; counted separately, never as proved).")

prop("C15",
     units=[("verus", "u4_expr", None), ("native", "n3_expr_ops", None)],
     level="proof",
     technique="Verus deductive proof on the real ir::Expr methods (extracted, with desugarings D2/D6/D7/D8/D9/D11/D12) against a polynomial evaluation function over an arbitrary assignment, generic in the width",
     design_ref="DESIGN.md section 4-U4, 5-C15",
     text="Proved fragment: val, var, add (sum), neg (negation), half (halving), evaluate (evaluation), constant, const_inc_of, identity, constant_part, inc_of, prod_inc_of (decompositions; the last two GIVEN that like terms are collected: at most one part is the plain variable) agree with eval(e, rho) = sum coef*prod rho(var) mod 2^bits for every assignment rho and every width. Unbounded.",
     note="NOT PROVED: mul, mul_parts, normalize, symb_evaluate, prod_of (and the like-terms-collected precondition of inc_of / prod_inc_of as an invariant of every constructor) -- closures with captured mutation, iterator adapters and HashMap code that Verus rejects and Kani does not finish; they are covered by a BOUNDED STAND-IN (unit n3_expr_ops: native enumeration of a ~300-member expression family over two variables, plus ~2400 same-support sums for the unary operations, against the proved evaluate; counted separately, never as proved; it also re-checks the proved operations on expressions produced by mul). split_along: only through its use in loop_motion (unit n4, C14). NOT decided at all: codegen. SmallVec is replaced by a Verus-checked Vec wrapper in the verification file (that it refines Vec is C18); slice Ord is assumed to satisfy Equal => equal sequences.")

prop("C03",
     units=[("kani", "u6_jit", None), ("native", "n2_bc_passes", None)],
     level="model_checking",
     technique="per-instruction contract of the real JIT selector/encoder: the bytes the real emit_program produces for a concrete bytecode instruction are run under an x86-64 subset semantics by Kani over ALL machine states and compared with the bytecode step semantics; operands enumerated",
     design_ref="DESIGN.md section 4-U6, 5-C03",
     text="Selector/encoder layer: for every enumerated instruction instance (every arm of the selector's match x register class incl. stack temporaries x immediate class incl. 64-bit immediates x displacement class x live mask x width) the emitted machine code computes the bytecode step for all register/stack/tape/context contents, preserves live temporaries and touches no byte outside the destination; branches, the budget check and the unchecked move likewise.",
     note="Trusted: the x86-64 subset semantics (decoder run natively, executor in Kani), the register map. Quick tier: the bytes come from a native run of the real emitter; thorough tier additionally proves in Kani that emit_program emits exactly them. Inp/Out call sequences are decided under the SysV call contract (caller-saved registers havoc). The x86 specification is conformance-checked against the CPU on every run (each arithmetic instance executed as real machine code). Also decided: the checked Mov probe/extend/re-base sequence, prologue + epilogue (both exits). The bytecode generator the JIT shares with the interpreter (bc::CodeGen::translate with 11 registers, no fusion) is covered ONLY by a BOUNDED STAND-IN (unit n2_bc_passes: semantics, operand window, temporaries, definite assignment and the `live` bitmaps the JIT saves registers by, on a fixed pseudo-random sample of IR programs; counted separately, never as proved). NOT decided: mmap/munmap/transmute in enter_jit_code, the optimiser (C01).")
