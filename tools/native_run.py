"""Route N: BOUNDED STAND-IN for functions neither verifier can take (DESIGN Part II §3.6).

A unit module (contracts/native/<unit>.py) overlays a `#[cfg(all(test, hpbf_verif_native))]` module on a
scratch copy of /repo that ENUMERATES a finite input domain of one real function exhaustively,
evaluates the function's contract natively (plain `cargo test`, no verifier) and prints one line
per obligation:

    NATIVE <obligation> OK cases=<n>
    NATIVE <obligation> FAIL cases=<n> first=<description of the first failing input>

This is a bounded check, labelled `bounded` everywhere and never counted as proved.  The failing
input it prints IS the replay: the same test re-run on the real code reproduces it.
"""
import importlib.util
import os
import re
import subprocess
import time

from common import VERIF, Scratch

NATIVE_DIR = os.path.join(VERIF, "contracts", "native")


def load_unit(name):
    path = os.path.join(NATIVE_DIR, name + ".py")
    spec = importlib.util.spec_from_file_location("native_unit_" + name, path)
    mod = importlib.util.module_from_spec(spec)
    spec.loader.exec_module(mod)
    return mod


def run_unit(unit_name, tier, seed, only_props=None):
    unit = load_unit(unit_name)
    obs = unit.obligations(tier, seed)
    if only_props:
        obs = [o for o in obs if set(o["properties"]) & set(only_props)]
    result = {"unit": unit_name, "backend": "native enumeration (plain cargo test) -- bounded stand-in, not a proof",
              "harnesses": [], "error": None, "cmd": None, "trusted": list(getattr(unit, "TRUSTED", [])), "wall_s": 0}
    if not obs:
        return result
    t0 = time.time()
    with Scratch(unit_name) as sc:
        for ov in unit.overlay(tier, seed):
            src = ov["src"]
            if "\n" not in src:
                src = open(os.path.join(NATIVE_DIR, src)).read()
            for k, v in ov.get("params", {}).items():
                src = src.replace("VERIF_PARAM_" + k, str(v))
            dest = os.path.join(sc.repo, ov["dest"])
            open(dest, "w").write(src)
            mod_in = os.path.join(sc.repo, ov["mod_in"])
            if not os.path.exists(mod_in):
                result["error"] = "lost anchor: %s does not exist" % ov["mod_in"]
                return result
            with open(mod_in, "a") as fh:
                fh.write('\n#[cfg(all(test, hpbf_verif_native))]\n#[path = "%s"]\nmod %s;\n' % (dest, ov["mod_name"]))
        env = dict(os.environ, CARGO_NET_OFFLINE="true", RUSTFLAGS="--cfg hpbf_verif_native",
                   CARGO_TARGET_DIR=os.path.join(sc.path, "target_native"))
        profile = ["--release"] if getattr(unit, "RELEASE", False) else []
        miri = getattr(unit, "MIRI", False)
        if miri:
            # the real functions executed by Miri: every out-of-bounds access / other UB is reported
            # one test at a time: the case printed last is then the one Miri stopped in
            cmd = ["cargo", "+nightly", "miri", "test", "--offline", "--lib", unit.TEST_FILTER, "--", "--nocapture", "--test-threads", "1"]
            result["backend"] = "native enumeration under Miri (cargo +nightly miri test) -- bounded stand-in, not a proof"
        else:
            cmd = ["cargo", "test", "--offline", "--lib"] + profile + [unit.TEST_FILTER, "--", "--nocapture", "--test-threads", "8"]
        result["cmd"] = "RUSTFLAGS='--cfg hpbf_verif_native' " + " ".join(cmd)
        try:
            # own process group: on a timeout the hung test binary (a grandchild) must die, too
            import signal
            pr = subprocess.Popen(cmd, cwd=sc.repo, env=env, stdout=subprocess.PIPE, stderr=subprocess.PIPE, text=True, start_new_session=True)
            try:
                so, se = pr.communicate(timeout=getattr(unit, "TIMEOUT", 1800))
            except subprocess.TimeoutExpired:
                try:
                    os.killpg(pr.pid, signal.SIGKILL)
                except ProcessLookupError:
                    pass
                so, se = pr.communicate()
                raise subprocess.TimeoutExpired(cmd, getattr(unit, "TIMEOUT", 1800), output=so, stderr=se)
            out = so + se
        except subprocess.TimeoutExpired as te:
            def _txt(b):
                return b.decode("utf-8", "replace") if isinstance(b, bytes) else (b or "")
            out = _txt(te.stdout) + _txt(te.stderr)
            hung = re.findall(r"N\d+CASE ([^\n]*)", out)
            if hung:
                # the real code was handed a case that terminates under the reference semantics and did not come back
                out += "\nthread 'x' (0) panicked at src/<real code>:0:0:\ndid not return within %d s (the reference semantics halts on this case)\n" % getattr(unit, "TIMEOUT", 1800)
            else:
                result["error"] = "native enumeration timed out"
        lines = {}
        for m in re.finditer(r"NATIVE (\S+) (OK|FAIL) cases=(\d+)(?: nontrivial=(\d+))?(?: first=(.*))?", out):
            cur = (m.group(2), int(m.group(3)), m.group(5) or "", int(m.group(4)) if m.group(4) else None)
            prev = lines.get(m.group(1))
            if prev is not None:
                # several test functions may report parts of one obligation (parallel enumeration): aggregate
                cur = ("FAIL" if "FAIL" in (prev[0], cur[0]) else "OK", prev[1] + cur[1], prev[2] or cur[2],
                       None if prev[3] is None and cur[3] is None else (prev[3] or 0) + (cur[3] or 0))
            lines[m.group(1)] = cur
        ub = None
        if miri and "Undefined Behavior" in out:
            m = re.search(r"error: Undefined Behavior: ([^\n]*)", out)
            at = re.findall(r"^\s+--> (src/[^\n]*)", out, re.M)
            last = re.findall(r"N5CASE ([^\n]*)", out)
            ub = "Miri: Undefined Behavior: %s%s; last case started: %s" % (m.group(1) if m else "?", (" at " + at[0]) if at else "", last[-1] if last else "?")
        # a panic inside the REAL code (not inside the overlaid test module) while a part of the
        # enumeration was running is a failure of that part, not a tool problem
        real_panic = None
        for pm in re.finditer(r"thread '[^']*' \(\d+\) panicked at ([^\n]+?):(\d+):(\d+):\n([^\n]*)", out):
            if "verif_n" not in pm.group(1):
                last = re.findall(r"N\d+CASE ([^\n]*)", out)
                real_panic = "the real code panicked at %s:%s: %s%s" % (pm.group(1), pm.group(2), pm.group(4)[:200], ("; last case started: " + last[-1][:300]) if last else "")
                break
        if real_panic and not ub:
            ub = real_panic
        sig = re.search(r"process didn't exit successfully:[^\n]*\(signal: (\d+)[^\n]*\)", out)
        if sig and not ub:
            # the test binary was killed by a signal while it ran the real code (the overlaid test
            # module itself contains no unsafe code that could do that)
            last = re.findall(r"N\d+CASE ([^\n]*)", out)
            ub = "the real code crashed the test process (signal %s)%s" % (sig.group(1), ("; last case started: " + last[-1][:300]) if last else "")
        if not lines and not result["error"] and not ub:
            errs = re.findall(r"^error.*(?:\n.*){0,8}", out, re.M)
            result["error"] = "native stage produced no result (does the overlay still compile against /repo?): " + "\n".join(errs[:2])[:900]
        for o in obs:
            e = dict(o)
            e["name"] = "%s::%s" % (unit_name, o["id"])
            got = lines.get(o["id"])
            kw = getattr(unit, "UB_KEYWORDS", {}).get(o["id"])
            if got is None and ub and kw and kw not in ub.split("last case started:")[-1]:
                # Miri stopped the whole test binary while ANOTHER part of the enumeration was running
                e.update({"status": "undecided", "reason": "the test binary was stopped by Miri (undefined behaviour in another part of the enumeration) before this part reported",
                          "n_checks": 0, "solver_s": None, "failed_checks": []})
            elif got is None and ub:
                # Miri stopped the test binary: the obligations whose result line is missing fail with the UB report
                e.update({"status": "failed", "reason": "contract violated on enumerated input: " + ub[:600], "n_checks": 0, "solver_s": None,
                          "failed_checks": [{"description": ub[:400]}], "native_failing_input": ub})
            elif got is None:
                e.update({"status": "undecided", "reason": result["error"] or "no result line (test panicked before reporting?)",
                          "n_checks": 0, "solver_s": None, "failed_checks": []})
            elif got[0] == "OK" and (got[1] == 0 or got[3] == 0):
                # vacuity guard: nothing enumerated, or the function under test never did anything
                e.update({"status": "undecided", "reason": "vacuous: %d cases, %s non-trivial" % (got[1], got[3]),
                          "n_checks": got[1], "solver_s": None, "failed_checks": []})
            elif got[0] == "OK":
                e["nontrivial_cases"] = got[3]
                e.update({"status": "discharged", "reason": "", "n_checks": got[1], "solver_s": None, "failed_checks": []})
            else:
                e.update({"status": "failed", "reason": "contract violated on enumerated input: " + got[2][:400],
                          "n_checks": got[1], "solver_s": None,
                          "failed_checks": [{"description": "contract violated: " + got[2][:300]}],
                          "native_failing_input": got[2]})
            result["harnesses"].append(e)
    result["wall_s"] = round(time.time() - t0, 1)
    return result


if __name__ == "__main__":
    import sys
    r = run_unit(sys.argv[1], sys.argv[2] if len(sys.argv) > 2 else "quick", 0)
    print(r["error"])
    for h in r["harnesses"]:
        print(h["status"], h["id"], h["n_checks"], h.get("nontrivial_cases"), h["reason"][:300])
    print(r["wall_s"])
