#!/usr/bin/env python3
"""Self-test of the checks against deliberately broken (and deliberately harmless) scratch copies
of /repo.  Never touches /repo.   usage: tools/mutant_test.py [selftest/mutants.json] [name-filter]

Each entry: {"name", "file", "old", "new", "property", "expect": "violation"|"ok"|"undecided-or-violation"}"""
import json, os, shutil, subprocess, sys, tempfile

VERIF = os.path.dirname(os.path.dirname(os.path.abspath(__file__)))


def main():
    path = sys.argv[1] if len(sys.argv) > 1 else os.path.join(VERIF, "selftest", "mutants.json")
    flt = sys.argv[2] if len(sys.argv) > 2 else ""
    ms = [m for m in json.load(open(path)) if flt in m["name"]]
    results = []
    for m in ms:
        d = tempfile.mkdtemp(prefix="hpbf-mutant-")
        try:
            repo = os.path.join(d, "repo")
            shutil.copytree("/repo", repo, ignore=lambda p, n: [x for x in n if x in ("target", ".git")] if p == "/repo" else [])
            f = os.path.join(repo, m["file"])
            s = open(f).read()
            if s.count(m["old"]) != 1:
                results.append((m["name"], "SKIP: pattern occurs %d times" % s.count(m["old"])))
                continue
            open(f, "w").write(s.replace(m["old"], m["new"]))
            env = dict(os.environ, VERIF_REPO=repo, VERIF_EVIDENCE_DIR=os.path.join(d, "evidence"), VERIF_REPLAY_DIR=os.path.join(d, "replays"))
            p = subprocess.run([os.path.join(VERIF, "bin", "check"), m["property"]], env=env, capture_output=True, text=True)
            got = {0: "ok", 1: "violation", 2: "undecided"}.get(p.returncode, "rc%d" % p.returncode)
            good = got == m["expect"] or (m["expect"] == "undecided-or-violation" and got in ("undecided", "violation"))
            lines = [l for l in p.stdout.split("\n") if l.startswith(("VIOLATION", "UNDECIDED"))][:2]
            results.append((m["name"], "%s expect=%s got=%s %s" % ("PASS" if good else "FAIL", m["expect"], got, " | ".join(lines)[:260])))
        finally:
            shutil.rmtree(d, ignore_errors=True)
        print(results[-1][0], results[-1][1], flush=True)
    bad = [r for r in results if r[1].startswith("FAIL")]
    print("%d mutants, %d unexpected" % (len(results), len(bad)))
    return 1 if bad else 0

sys.exit(main())
