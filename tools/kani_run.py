"""Route K: run the Kani contract harnesses of one unit against a scratch copy of /repo.

The unit module (contracts/kani/<unit>.py) supplies:
  UNIT            short name
  overlay(tier)   list of {"src": harness text or path under contracts/kani, "dest": path inside the
                  scratch repo, "mod_in": file that gets `#[cfg(kani)] #[path] mod <mod_name>;`,
                  "mod_name": str, "params": {NAME: value}}  (tokens VERIF_PARAM_<NAME> substituted)
  harnesses(tier, seed)  list of {"name": fully-qualified harness, "function": real function(s)
                  under contract, "clause": contract in words, "properties": [ids],
                  "bounded_by": None | text, "timeout": seconds}
  KANI_FLAGS      extra flags (e.g. ["-Z", "stubbing"])
  TRUSTED         list of strings for trusted_base

/repo is never edited: the overlay is applied to the copy.  Every verifier process runs under a
wall-clock timeout and an address-space limit.
"""
import importlib.util
import os
import re
import shutil
import sys
import time

from common import VERIF, Scratch, run

KANI_DIR = os.path.join(VERIF, "contracts", "kani")
JOBS = int(os.environ.get("VERIF_JOBS", "14"))
RSS_GB = float(os.environ.get("VERIF_RSS_GB", "10"))


def load_unit(name):
    path = os.path.join(KANI_DIR, name + ".py")
    spec = importlib.util.spec_from_file_location("kani_unit_" + name, path)
    mod = importlib.util.module_from_spec(spec)
    spec.loader.exec_module(mod)
    return mod


def _overlay(unit, tier, seed=0):
    try:
        return unit.overlay(tier, seed)
    except TypeError:
        return unit.overlay(tier)


def apply_overlay(repo, unit, tier, seed=0):
    applied = []
    # two-stage units (u6): `prepare` may build and run helper code NATIVELY inside the scratch copy
    # (e.g. dump the bytes the real emitter produces) and returns the final overlay
    ovs = unit.prepare(repo, tier, seed) if hasattr(unit, "prepare") else _overlay(unit, tier, seed)
    for ov in ovs:
        src = ov["src"]
        if "\n" not in src:
            src = open(os.path.join(KANI_DIR, src)).read()
        for k, v in ov.get("params", {}).items():
            src = src.replace("VERIF_PARAM_" + k, str(v))
        left = re.findall(r"VERIF_PARAM_\w+", src)
        if left:
            raise RuntimeError("unsubstituted harness parameters: %s" % sorted(set(left)))
        dest = os.path.join(repo, ov["dest"])
        os.makedirs(os.path.dirname(dest), exist_ok=True)
        with open(dest, "w") as fh:
            fh.write(src)
        mod_in = os.path.join(repo, ov["mod_in"])
        if not os.path.exists(mod_in):
            raise RuntimeError("lost anchor: %s does not exist in /repo" % ov["mod_in"])
        with open(mod_in, "a") as fh:
            if not ov.get("already_declared"):
                fh.write('\n#[cfg(%s)]\n#[path = "%s"]\nmod %s;\n' % (ov.get("cfg", "kani"), dest, ov["mod_name"]))
        applied.append({"harness_file": ov["dest"], "module_appended_to": ov["mod_in"],
                        "params": ov.get("params", {})})
    lock = os.path.join(repo, "Cargo.lock")
    if not os.path.exists(lock):
        raise RuntimeError("Cargo.lock missing in /repo")
    return applied


# (the description is the stringified assertion: long expressions are pretty-printed over several lines)
CHECK_RE = re.compile(r"^Check (\d+): (.+)\n\t - Status: (\w+)\n\t - Description: \"((?:.|\n)*?)\"\n\t - Location: (.*)$", re.M)


def parse_harness_output(text):
    """Return dict(status, checks, failed, cover_unsat, verification_time)."""
    checks = []
    for m in CHECK_RE.finditer(text):
        checks.append({"n": int(m.group(1)), "id": m.group(2), "status": m.group(3),
                       "description": re.sub(r"\s*\n\s*", " ", m.group(4)), "location": m.group(5)})
    res = {"n_checks": len(checks), "checks": checks}
    m = re.search(r"Verification Time: ([0-9.]+)s", text)
    res["time_s"] = float(m.group(1)) if m else None
    if "VERIFICATION:- SUCCESSFUL" in text:
        res["verdict"] = "SUCCESSFUL"
    elif "VERIFICATION:- FAILED" in text:
        res["verdict"] = "FAILED"
    else:
        res["verdict"] = "NONE"
    res["oom"] = "run out of memory" in text or "CBMC failed" in text
    res["timeout"] = "timed out" in text.lower()
    return res


def classify(parsed, harness_file_hint, allow_unreachable=()):
    """discharged | failed (semantic: a check with status FAILURE that is not an unwinding
    assertion) | undecided (timeout, OOM, unwinding bound hit, vacuous cover, tool crash)."""
    if parsed["timeout"]:
        return "undecided", "verifier timeout"
    if parsed["verdict"] == "NONE" or (parsed["oom"] and not parsed["n_checks"]):
        return "undecided", "verifier crashed / out of memory / no result"
    failures = [c for c in parsed["checks"] if c["status"] == "FAILURE"]
    unwind = [c for c in failures if "unwinding assertion" in c["description"]]
    real = [c for c in failures if c not in unwind]
    unsupported = [c for c in real if "is not currently supported by Kani" in c["description"]
                   or "unsupported" in c["id"]]
    real = [c for c in real if c not in unsupported]
    # vacuity: cover statements must be satisfied
    covers = [c for c in parsed["checks"] if ".cover." in c["id"]]
    bad_cover = [c for c in covers if c["status"] != "SATISFIED"
                 and not any(a in c["description"] for a in allow_unreachable)]
    if real:
        return "failed", "; ".join("%s @ %s" % (c["description"], c["location"]) for c in real[:4])
    if unwind:
        return "undecided", "unwinding bound too small: " + unwind[0]["location"]
    if unsupported:
        return "undecided", "construct unsupported by Kani: " + unsupported[0]["description"]
    if parsed["verdict"] == "FAILED":
        return "undecided", "verification failed without a failing check (tool problem)"
    if bad_cover:
        return "undecided", "vacuity guard: cover not satisfied: " + bad_cover[0]["description"]
    # vacuity: every contract assertion of the harness file must be reachable in at least one
    # monomorphised instance (instances for degenerate shapes, e.g. LEN = 0, may be dead)
    def srcpos(c):
        return c["location"].split(" in function")[0]
    live = {srcpos(c) for c in parsed["checks"] if c["status"] in ("SUCCESS", "FAILURE")}
    unreachable_user = [c for c in parsed["checks"] if c["status"] == "UNREACHABLE"
                        and c["description"].startswith("assertion failed")
                        and harness_file_hint and harness_file_hint in c["location"]
                        and srcpos(c) not in live
                        and not any(a in c["description"] for a in allow_unreachable)]
    if unreachable_user:
        return "undecided", "vacuity guard: contract assertion unreachable: " + unreachable_user[0]["description"]
    if parsed["n_checks"] == 0:
        return "undecided", "vacuity guard: zero checks generated"
    return "discharged", ""


def kani_cmd(names, flags, timeout_s, jobs, playback=False):
    cmd = ["cargo", "kani"]
    if playback:
        cmd += ["-Z", "concrete-playback", "--concrete-playback=print"]
    else:
        cmd += ["-j", str(jobs), "--output-format", "terse", "--output-into-files"]
    cmd += ["-Z", "unstable-options", "--harness-timeout", "%ds" % timeout_s, "--exact"]
    cmd += list(flags)
    for n in names:
        cmd += ["--harness", n]
    return cmd


def extract_playback(out):
    """The unit test Kani prints for a failing harness (concrete values of every kani::any())."""
    m = re.search(r"(#\[test\]\s*fn kani_concrete_playback_.*?\n\}\n)", out, re.S)
    return m.group(1) if m else None


def decode_playback(test_src):
    """List of byte vectors, one per kani::any() in call order."""
    if not test_src:
        return None
    vals = []
    for m in re.finditer(r"//\s*(-?\d+|[^\n]*)\n\s*vec!\[([0-9, ]*)\]", test_src):
        bytes_ = [int(x) for x in m.group(2).split(",") if x.strip()]
        vals.append({"comment": m.group(1).strip(), "bytes": bytes_})
    return vals


def run_unit(unit_name, tier, seed, only_props=None, want_playback=True, log=sys.stderr):
    unit = load_unit(unit_name)
    hs = unit.harnesses(tier, seed)
    if only_props:
        hs = [h for h in hs if set(h["properties"]) & set(only_props)]
    if os.environ.get("VERIF_HARNESS_FILTER"):
        # development aid: run only the harnesses whose name matches
        hs = [h for h in hs if re.search(os.environ["VERIF_HARNESS_FILTER"], h["name"])]
    result = {"unit": unit_name, "backend": "kani 0.68.0 / cbmc 6.11.0 / cadical", "harnesses": [],
              "tier": tier, "overlay": None, "cmd": None, "build_and_verify_s": None,
              "error": None, "trusted": list(getattr(unit, "TRUSTED", []))}
    if not hs:
        return result
    flags = list(getattr(unit, "KANI_FLAGS", []))
    max_timeout = max(h.get("timeout", 120) for h in hs)
    t0 = time.time()
    with Scratch(unit_name) as sc:
        try:
            result["overlay"] = apply_overlay(sc.repo, unit, tier, seed)
        except RuntimeError as e:
            result["error"] = str(e)
            return result
        hint = result["overlay"][-1]["harness_file"] if result["overlay"] else None
        cmd = kani_cmd([h["name"] for h in hs], flags, max_timeout, JOBS)
        result["cmd"] = " ".join(cmd[:12]) + " ... (%d harnesses)" % len(hs)
        overall = 600 + max_timeout * (len(hs) // JOBS + 2)
        rc, out, secs = run(cmd, cwd=sc.repo, timeout=overall, rss_kill_gb=RSS_GB)
        result["build_and_verify_s"] = round(secs, 1)
        if os.environ.get("VERIF_DEBUG"):
            open(os.path.join(os.environ["VERIF_DEBUG"], unit_name + ".kani.log"), "w").write(out or "")
        outdir = os.path.join(sc.repo, "result_output_dir")
        if rc is None:
            result["error"] = "cargo kani exceeded the overall time limit (%ds)" % overall
        elif not os.path.isdir(outdir):
            tail = "\n".join(l for l in (out or "").split("\n") if l.strip() and not l.startswith(("warning", " ")))[-800:]
            result["error"] = "cargo kani produced no results (exit %s): %s" % (rc, tail)
        if re.search(r"^error(\[E\d+\])?:", out or "", re.M) and not os.path.isdir(outdir):
            errs = re.findall(r"^error.*(?:\n.*){0,6}", out, re.M)
            result["error"] = "harness does not compile against /repo (lost anchor?):\n" + "\n".join(errs[:3])
        failed = []
        for h in hs:
            entry = dict(h)
            p = os.path.join(outdir, h["name"])
            if os.path.exists(p):
                parsed = parse_harness_output(open(p, errors="replace").read())
                status, reason = classify(parsed, hint, h.get("allow_unreachable", ()))
                entry.update({"status": status, "reason": reason, "n_checks": parsed["n_checks"],
                              "solver_s": parsed["time_s"],
                              "failed_checks": [c for c in parsed["checks"] if c["status"] == "FAILURE"][:8]})
            else:
                entry.update({"status": "undecided", "n_checks": 0, "solver_s": None, "failed_checks": [],
                              "reason": result["error"] or "no result file (timeout, crash or harness not found)"})
            if entry["status"] == "failed":
                failed.append(entry)
            result["harnesses"].append(entry)
        if hasattr(unit, "post_process"):
            result["harnesses"] = unit.post_process(result["harnesses"])
            failed = [e for e in result["harnesses"] if e["status"] == "failed"]
        # counterexamples for failing harnesses (sequential, bounded in number)
        if want_playback and (not hasattr(unit, "native_replay") or getattr(unit, "WANTS_PLAYBACK_VALUES", False)):
            for entry in failed[:(2 if tier == 'quick' else 8)]:
                cmd = kani_cmd([entry["name"]], flags, entry.get("timeout", 120), 1, playback=True)
                rc, out, secs = run(cmd, cwd=sc.repo, timeout=entry.get("timeout", 120) + 300, rss_kill_gb=RSS_GB)
                test = extract_playback(out)
                entry["playback_test"] = test
                entry["playback_values"] = decode_playback(test)
    result["wall_s"] = round(time.time() - t0, 1)
    return result


if __name__ == "__main__":
    import json
    r = run_unit(sys.argv[1], sys.argv[2] if len(sys.argv) > 2 else "quick", 0)
    for h in r["harnesses"]:
        print(h["status"], h["name"], h["n_checks"], h["solver_s"], h["reason"][:200])
    print(json.dumps({k: v for k, v in r.items() if k != "harnesses"}, indent=1))
