"""Route V back end: extract a unit from /repo's current sources, run Verus on it, map the
result back to functions / clauses.

Verdict per unit:
  ok          every function verified, expected function list present, canary fails as it must
  failed      Verus reports a proof failure (postcondition / precondition / invariant / assertion /
              overflow / decreases) -- `failures` lists (function key, clause, message)
  undecided   lost anchor, construct outside the desugaring list, type error in the spliced text,
              rlimit / timeout, tool crash, vacuity guard tripped
"""
import json
import os
import re
import sys
import time
import concurrent.futures as cf

import rustlex
from common import VERIF, REPO, Scratch, run, sha256_text
from extract import Extractor, LostAnchor

VERUS_DIR = os.path.join(VERIF, "contracts", "verus")
VERUS_VERSION = "verus 0.2026.09.13 / z3 (bundled)"

SEMANTIC = (
    "postcondition not satisfied", "precondition not satisfied", "invariant not satisfied",
    "assertion failed", "possible arithmetic underflow/overflow", "possible division by zero",
    "decreases not satisfied", "possible bit shift underflow/overflow", "loop invariant",
    "requires not satisfied", "assertion not satisfied", "unreachable", "possible truncation",
    "could not prove termination", "recommendation not met", "index out of bounds",
    "failed this postcondition", "condition not satisfied",
)
RESOURCE = ("resource limit", "rlimit", "timed out", "timeout")

CHEATS = ("assume(", "admit(", "external_body", "assume_specification", "#[verifier::external",
          "#[verifier::exec_allows_no_decreases_clause]", "broadcast axiom", "axiom fn")


def scan_cheats(text):
    """Mechanical scan of the generated file for every unchecked assumption keyword."""
    found = []
    for n, line in enumerate(text.split("\n"), 1):
        code = line.split("//")[0]
        for c in CHEATS:
            if c in code:
                found.append({"line": n, "keyword": c, "text": line.strip()[:160]})
    return found


def _verus(path, extra=(), timeout=600):
    cmd = ["verus", path, "--output-json", "--time-expanded", "--error-format=json", "--multiple-errors", "4"] + list(extra)
    rc, out, secs = run(cmd, cwd=os.path.dirname(path), timeout=timeout, as_gb=24)
    return rc, out, secs, " ".join(["verus", os.path.basename(path)] + cmd[2:])


def _split_output(out):
    """stdout JSON document + stderr JSON diagnostics arrive interleaved in one stream."""
    diags, doc = [], None
    # the result document is a multi-line pretty-printed JSON object starting at a line `{`
    lines = out.split("\n")
    buf, depth, in_doc = [], 0, False
    for ln in lines:
        if not in_doc and ln.startswith('{"$message_type"'):
            try:
                diags.append(json.loads(ln))
            except ValueError:
                pass
            continue
        if not in_doc and ln.strip() == "{":
            in_doc, buf = True, [ln]
            continue
        if in_doc:
            buf.append(ln)
            if ln == "}":
                try:
                    doc = json.loads("\n".join(buf))
                except ValueError:
                    pass
                in_doc = False
    return doc, diags


def _impl_order(gen_text):
    """Verus names methods `crate::impl&%N::name` by the ordinal of the impl block."""
    toks = rustlex.lex(gen_text)
    # find `verus ! {` ... matching brace
    impls = []
    for k, t in enumerate(toks):
        if t.kind == "ident" and t.text == "verus":
            n1 = rustlex._next_sig_idx(toks, k)
            if toks[n1].text == "!":
                o = rustlex._next_sig_idx(toks, n1)
                c = rustlex.match_close(toks, o)
                for it in rustlex.parse_items(toks, o + 1, c):
                    if it.kind == "impl":
                        impls.append((it, gen_text.count("\n", 0, it.start) + 1, gen_text.count("\n", 0, it.end) + 1))
                break
    return impls


def run_unit(unit_name, want_canary=True):
    unit_dir = os.path.join(VERUS_DIR, unit_name)
    res = {"unit": unit_name, "backend": VERUS_VERSION, "status": "undecided", "reason": "",
           "functions": [], "obligations": [], "failures": [], "extraction_log": [],
           "assumptions_in_text": [], "imported_contracts": [], "verified": 0, "errors": 0, "wall_s": 0.0, "smt_s": 0.0,
           "cmd": "", "canary": None}
    t0 = time.time()
    with Scratch(unit_name) as sc:
        gen = os.path.join(sc.path, unit_name + ".rs")
        try:
            ex = Extractor(unit_dir, repo=sc.repo)
            text = ex.build()
        except LostAnchor as e:
            res["reason"] = "lost anchor: %s" % e
            res["wall_s"] = round(time.time() - t0, 1)
            return res
        except (ValueError, IndexError, KeyError) as e:
            res["reason"] = "extractor could not process the current source: %r" % (e,)
            res["wall_s"] = round(time.time() - t0, 1)
            return res
        open(gen, "w").write(text)
        res["functions"] = ex.functions
        res["extraction_log"] = ex.log
        res["imported_contracts"] = ex.imports
        res["assumptions_in_text"] = scan_cheats(text)
        res["generated_sha256"] = sha256_text(text)[:16]
        res["generated_lines"] = text.count("\n") + 1
        # canary: same extraction with the `#@canary` clauses (deliberately false) switched on
        jobs = {}
        has_canary = "#@canary" in open(os.path.join(unit_dir, "splices.vs")).read()
        with cf.ThreadPoolExecutor(max_workers=2) as pool:
            jobs["main"] = pool.submit(_verus, gen)
            if want_canary and has_canary:
                try:
                    ex2 = Extractor(unit_dir, repo=sc.repo, canary=True)
                    ctext = ex2.build()
                    cgen = os.path.join(sc.path, unit_name + "_canary.rs")
                    open(cgen, "w").write(ctext)
                    jobs["canary"] = pool.submit(_verus, cgen)
                except LostAnchor as e:
                    res["canary"] = {"status": "lost anchor: %s" % e}
            rc, out, secs, cmd = jobs["main"].result()
            cres = jobs["canary"].result() if "canary" in jobs else None
        res["cmd"] = cmd
        doc, diags = _split_output(out or "")
        if rc is None:
            res["reason"] = "verus timed out"
            res["wall_s"] = round(time.time() - t0, 1)
            return res
        if doc is None:
            res["reason"] = "verus produced no result document: " + (out or "")[-600:]
            res["wall_s"] = round(time.time() - t0, 1)
            return res
        vr = doc.get("verification-results", {})
        res["verified"] = vr.get("verified", 0)
        res["errors"] = vr.get("errors", 0)
        # per-function obligations
        impls = _impl_order(text)
        try:
            mods = doc["times-ms"]["smt"]["smt-run-module-times"]
            for m in mods:
                for f in m.get("function-breakdown", []):
                    res["obligations"].append({"verus_fn": f["function"], "mode": f.get("mode:", ""),
                                               "success": bool(f.get("success")), "smt_ms": f.get("time", 0),
                                               "rlimit": f.get("rlimit")})
            res["smt_s"] = round(doc["times-ms"]["smt"].get("total", 0) / 1000.0, 2)
        except (KeyError, IndexError, TypeError):
            pass
        # diagnostics -> failures
        gen_lines = text.split("\n")
        hard_errors, resource = [], []
        for d in diags:
            if d.get("level") != "error":
                continue
            msg = d.get("message", "")
            if msg.startswith("aborting due to"):
                continue
            spans = d.get("spans") or []
            prim = [s for s in spans if s.get("is_primary")] or spans
            line = prim[0]["line_start"] if prim else None
            low = msg.lower()
            if any(r in low for r in RESOURCE):
                resource.append((msg, line))
                continue
            if any(s in low for s in SEMANTIC):
                key, origin = _locate(ex, text, line, spans)
                labels = [s.get("label") for s in spans if s.get("label")]
                snippet = gen_lines[line - 1].strip()[:200] if line and line <= len(gen_lines) else ""
                res["failures"].append({"function": key, "origin": origin, "message": msg,
                                        "labels": labels, "generated_line": line, "text": snippet})
            else:
                hard_errors.append((msg, line))
        if cres is not None:
            crc, cout, csecs, ccmd = cres
            cdoc, cdiags = _split_output(cout or "")
            if cdoc is None:
                res["canary"] = {"status": "no result"}
            else:
                cvr = cdoc.get("verification-results", {})
                cerr, cver = cvr.get("errors", 0), cvr.get("verified", 0)
                chard = [d for d in cdiags if d.get("level") == "error"
                         and not any(x in d.get("message", "").lower() for x in SEMANTIC)
                         and not d.get("message", "").startswith("aborting")]
                if chard or (cerr == 0 and cver == 0):
                    res["canary"] = {"status": "canary file rejected by verus: %s" % (chard[0]["message"][:120] if chard else "no result")}
                else:
                    res["canary"] = {"status": "fails as required" if cerr > 0 else "PASSED (vacuous!)",
                                     "errors": cerr, "verified": cver}
        if hard_errors:
            res["reason"] = "verus rejected the generated file (unsupported construct / type error): " + \
                            "; ".join("%s @gen:%s" % e for e in hard_errors[:3])
        elif res["failures"]:
            res["status"] = "failed"
            res["reason"] = "%d proof obligation(s) not discharged" % len(res["failures"])
        elif resource:
            res["reason"] = "solver resource limit: " + "; ".join("%s @gen:%s" % e for e in resource[:3])
        elif res["errors"] or not vr.get("success"):
            res["reason"] = "verus reports errors without diagnostics"
        elif res["verified"] == 0:
            res["reason"] = "vacuity guard: zero obligations verified"
        elif want_canary and (not res["canary"] or res["canary"]["status"] != "fails as required"):
            res["reason"] = "vacuity guard: canary " + (res["canary"]["status"] if res["canary"] else "missing (no #@canary clause in splices.vs)")
        elif False:
            res["reason"] = "vacuity guard: canary " + res["canary"]["status"]
        else:
            res["status"] = "ok"
    res["wall_s"] = round(time.time() - t0, 1)
    return res


def _locate(ex, text, line, spans):
    """Map a line of the generated file to (function key, origin)."""
    if line is None:
        return "?", "?"
    # which extract block?
    for lo, hi, selector, rel, src_lines in ex.srcmap:
        if lo <= line <= hi:
            keys = [f["key"] for f in ex.functions if f["key"] == selector or f["key"].startswith(selector + " > fn ")]
            lines = text.split("\n")
            for n in range(line, lo - 1, -1):
                m = re.match(r"\s*(pub\s+)?(unsafe\s+)?fn\s+(\w+)", lines[n - 1])
                if m:
                    cand = "%s > fn %s" % (selector, m.group(3)) if not selector.startswith("fn ") else selector
                    if cand in keys:
                        return cand, "%s:%s" % (rel, src_lines)
                    break
            if len(keys) == 1:        # e.g. a D5 copy whose name was changed
                return keys[0], "%s:%s" % (rel, src_lines)
            return selector, "%s:%s" % (rel, src_lines)
    lines = text.split("\n")
    for n in range(line, 0, -1):
        m = re.match(r"\s*(pub\s+)?(open\s+|closed\s+)?(proof|spec|exec)?\s*fn\s+(\w+)", lines[n - 1])
        if m:
            return "template > fn %s" % m.group(4), "contracts template"
    return "template", "contracts template"


if __name__ == "__main__":
    r = run_unit(sys.argv[1])
    r2 = dict(r)
    r2["obligations"] = "%d entries" % len(r["obligations"])
    r2["functions"] = "%d entries" % len(r["functions"])
    print(json.dumps(r2, indent=1)[:6000])
