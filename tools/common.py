"""Shared plumbing for the /verif checks: scratch copies of /repo, process control, verdicts,
known findings, evidence files.  No verification logic lives here."""
import hashlib
import json
import os
import re
import resource
import shutil
import signal
import subprocess
import sys
import tempfile
import time

VERIF = os.path.dirname(os.path.dirname(os.path.abspath(__file__)))
REPO = os.environ.get("VERIF_REPO", "/repo")
EVIDENCE_DIR = os.environ.get("VERIF_EVIDENCE_DIR", os.path.join(VERIF, "evidence"))
REPLAY_DIR = os.environ.get("VERIF_REPLAY_DIR", os.path.join(VERIF, "replays"))
KNOWN_FINDINGS = os.path.join(VERIF, "known_findings.txt")

OFFLINE_ENV = {"CARGO_NET_OFFLINE": "true", "GOPROXY": "off", "PIP_NO_INDEX": "1"}

# exit codes
OK, VIOLATION, UNDECIDED = 0, 1, 2


def env():
    e = dict(os.environ)
    e.update(OFFLINE_ENV)
    return e


def sha256_text(s):
    return hashlib.sha256(s.encode()).hexdigest()


def repo_fingerprint():
    """Hash of the working-tree source files (not git HEAD: the tree may have been edited)."""
    h = hashlib.sha256()
    for root, dirs, files in os.walk(os.path.join(REPO, "src")):
        dirs.sort()
        for f in sorted(files):
            p = os.path.join(root, f)
            h.update(os.path.relpath(p, REPO).encode())
            with open(p, "rb") as fh:
                h.update(fh.read())
    for f in ("Cargo.toml", "Cargo.lock"):
        p = os.path.join(REPO, f)
        if os.path.exists(p):
            with open(p, "rb") as fh:
                h.update(fh.read())
    return h.hexdigest()[:16]


class Scratch:
    """A throw-away copy of /repo's working tree outside /repo and /verif; removed on exit."""

    def __init__(self, tag):
        base = os.environ.get("VERIF_SCRATCH_BASE", tempfile.gettempdir())
        self.path = tempfile.mkdtemp(prefix="hpbf-verif-%s-" % tag, dir=base)

    def __enter__(self):
        def ignore(d, names):
            if os.path.abspath(d) == os.path.abspath(REPO):
                return [n for n in names if n in ("target", ".git")]
            return []
        dst = os.path.join(self.path, "repo")
        shutil.copytree(REPO, dst, ignore=ignore, symlinks=True)
        self.repo = dst
        return self

    def __exit__(self, *a):
        if os.environ.get("VERIF_KEEP_SCRATCH"):
            sys.stderr.write("[verif] keeping scratch %s\n" % self.path)
            return
        shutil.rmtree(self.path, ignore_errors=True)


def _limits(as_gb):
    def f():
        os.setsid()
        if as_gb:
            lim = int(as_gb * (1 << 30))
            resource.setrlimit(resource.RLIMIT_AS, (lim, lim))
    return f


def _rss_watchdog(pgid, limit_gb, stop, killed):
    """Kill any verifier back-end process (cbmc / goto-instrument / z3) of our process group whose
    resident set exceeds the limit: one probe took 65 GB before the kernel killed it."""
    page = os.sysconf("SC_PAGE_SIZE")
    while not stop.wait(2.0):
        for pid in os.listdir("/proc"):
            if not pid.isdigit():
                continue
            try:
                with open("/proc/%s/stat" % pid) as fh:
                    st = fh.read()
                comm = st[st.index("(") + 1:st.rindex(")")]
                if comm not in ("cbmc", "goto-instrument", "z3", "goto-cc", "kissat"):
                    continue
                fields = st[st.rindex(")") + 2:].split()
                if int(fields[2]) != pgid:      # pgrp
                    continue
                rss = int(fields[21]) * page
                if rss > limit_gb * (1 << 30):
                    os.kill(int(pid), signal.SIGKILL)
                    killed.append((comm, int(pid), rss >> 20))
            except (OSError, ValueError, IndexError):
                continue


def run(cmd, cwd=None, timeout=None, as_gb=None, extra_env=None, stdin=None, rss_kill_gb=None):
    """Run a command under a wall-clock timeout and an address-space limit, killing the whole
    process group on timeout.  Returns (returncode or None on timeout, stdout+stderr, seconds)."""
    e = env()
    if extra_env:
        e.update(extra_env)
    t0 = time.time()
    p = subprocess.Popen(cmd, cwd=cwd, env=e, stdout=subprocess.PIPE, stderr=subprocess.STDOUT,
                         stdin=subprocess.DEVNULL if stdin is None else subprocess.PIPE,
                         preexec_fn=_limits(as_gb), text=True, errors="replace")
    stop, killed, th = None, [], None
    if rss_kill_gb:
        import threading
        stop = threading.Event()
        th = threading.Thread(target=_rss_watchdog, args=(p.pid, rss_kill_gb, stop, killed), daemon=True)
        th.start()
    try:
        out, _ = p.communicate(input=stdin, timeout=timeout)
        rc = p.returncode
    except subprocess.TimeoutExpired:
        try:
            os.killpg(p.pid, signal.SIGKILL)
        except ProcessLookupError:
            pass
        out, _ = p.communicate()
        rc = None
    if stop:
        stop.set()
    if killed:
        out = (out or "") + "\n[verif] killed for exceeding %s GB RSS: %s\n" % (rss_kill_gb, killed)
    return rc, out, time.time() - t0


# ---------------------------------------------------------------------------------- findings

def load_known_findings():
    """Lines `finding: property=<id> obligation=<unit/fn/clause> [input=...] -- text` and
    `fixed: property=<id> <commit> <what failed>`.  Only `finding:` lines suppress anything."""
    findings, fixed = [], []
    if os.path.exists(KNOWN_FINDINGS):
        for line in open(KNOWN_FINDINGS):
            line = line.strip()
            if line.startswith("finding:"):
                m = re.match(r"finding:\s+property=(\S+)\s+obligation=(\S+)\s*(.*)", line)
                if m:
                    findings.append({"property": m.group(1), "obligation": m.group(2), "text": m.group(3)})
            elif line.startswith("fixed:"):
                fixed.append(line)
    return findings, fixed


# ---------------------------------------------------------------------------------- evidence

def write_evidence(pid, doc):
    os.makedirs(EVIDENCE_DIR, exist_ok=True)
    path = os.path.join(EVIDENCE_DIR, pid + ".json")
    tmp = path + ".tmp"
    with open(tmp, "w") as fh:
        json.dump(doc, fh, indent=1, sort_keys=False)
        fh.write("\n")
    os.replace(tmp, path)
    # validate against the schema when jsonschema is importable (tooling venv); never fatal
    try:
        import jsonschema  # noqa
        schema = json.load(open("/root/.vp/EVIDENCE.schema.json"))
        jsonschema.validate(doc, schema)
    except ImportError:
        pass
    except FileNotFoundError:
        pass
    return path


def write_replay(pid, name, doc):
    os.makedirs(REPLAY_DIR, exist_ok=True)
    safe = re.sub(r"[^A-Za-z0-9_.-]+", "_", name)[:120]
    path = os.path.join(REPLAY_DIR, "%s__%s.json" % (pid, safe))
    with open(path, "w") as fh:
        json.dump(doc, fh, indent=1)
        fh.write("\n")
    return path
