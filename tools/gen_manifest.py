#!/usr/bin/env python3
"""Regenerate MANIFEST.json from tools/registry.py (claimed) and NOT_APPLICABLE below."""
import json, os, sys
sys.path.insert(0, os.path.dirname(os.path.abspath(__file__)))
import registry

NOT_APPLICABLE = {
    "C01": "semantic preservation of parse+optimize is a compiler-correctness proof over closure/iterator/HashMap code that Verus rejects and Kani cannot finish; no reachable contract decides it (DESIGN.md 5-C01)",
    "C05": "whole-pipeline termination/divergence equivalence; not a per-function postcondition, and the passes that use the loop classification are outside both verifiers (DESIGN.md 5-C05)",
    "C11": "it is the postcondition of bc::CodeGen::translate, whose passes (std HashMap/BTreeSet/BinaryHeap, closures) are outside both verifiers (DESIGN.md 5-C11)",
    "C12": "Program::parse is outside both verifiers (Verus: idioms; Kani: 3 symbolic chars > 15 min); the in-place interpreter's share is proved under C04 (DESIGN.md 5-C12)",
    "C13": "totality/determinism/complexity of the whole compile pipeline; no function-level contract expresses hash-order independence or absence of unimplemented! for all programs (DESIGN.md 5-C13)",
    "C16": "behaviour of main (argv, files, stdio, exit code); no function boundary, no string reasoning in Verus, no env::args in Kani (DESIGN.md 5-C16)",
}
ALL = ["C%02d" % i for i in range(1, 19)]

def main():
    checks = []
    for pid in ALL:
        if pid not in registry.PROPS:
            continue
        p = registry.PROPS[pid]
        checks.append({
            "property_id": pid,
            "quick_cmd": "bin/check %s --tier quick" % pid,
            "thorough_cmd": "bin/check %s --tier thorough" % pid,
            "evidence_file": "/verif/evidence/%s.json" % pid,
            "replay_cmd_template": "bin/check %s --replay {path}" % pid,
            "engine": "contracts",
            "level_claimed": {"category": p["level"], "text": p["text"], "design_ref": p["design_ref"]},
            "level_note": p["note"],
            "technique": p["technique"],
        })
    na = [{"property_id": k, "reason": v} for k, v in sorted(NOT_APPLICABLE.items()) if k not in registry.PROPS]
    for pid in ALL:
        if pid not in registry.PROPS and pid not in NOT_APPLICABLE:
            na.append({"property_id": pid, "reason": "unit not built yet in this session; planned in DESIGN.md section 5"})
    na.sort(key=lambda x: x["property_id"])
    doc = {
        "version": 1,
        "setup_cmd": "python3 tools/selfcheck.py",
        "hooks": {"guard": "cfg(kani) for Kani overlays; cfg(hpbf_verif_dump) / cfg(hpbf_verif_replay) / cfg(hpbf_verif_native) for the native stages (all set only inside scratch copies; /repo is never edited, no hook is committed there)",
                  "enable": "checks copy /repo's working tree to a scratch directory and append `#[cfg(kani)] mod verif_*;` (resp. `#[cfg(all(test, hpbf_verif_*))] mod verif_*;`) overlays there; Verus units are extracted mechanically into a single file",
                  "baseline_off_cmd": "cd /repo && cargo test --workspace --no-fail-fast --offline",
                  "source_commits": [], "add_only": True},
        "engines": [{"name": "contracts", "path": "bin/check",
                     "serves_properties": [c["property_id"] for c in checks],
                     "kind_free_text": "contract-based deductive verification: Verus on mechanically extracted real functions; Kani contract harnesses over arbitrary pre-states on a scratch copy of the real crate"}],
        "checks": checks,
        "not_applicable": na,
        "notes": "Exit codes: 0 holds, 1 VIOLATION, 2 UNDECIDED (lost anchor / tool limit; never an alarm). See DESIGN.md.",
    }
    path = os.path.join(os.path.dirname(os.path.dirname(os.path.abspath(__file__))), "MANIFEST.json")
    json.dump(doc, open(path, "w"), indent=1)
    open(path, "a").write("\n")
    try:
        import jsonschema
        jsonschema.validate(doc, json.load(open("/root/.vp/MANIFEST.schema.json")))
        print("MANIFEST.json valid:", len(checks), "checks,", len(na), "not applicable")
    except ImportError:
        print("MANIFEST.json written (jsonschema not importable)")

main()
