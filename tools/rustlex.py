"""A small Rust tokenizer and item/structure finder -- enough to cut items out of /repo's sources
by *path* and to locate structural anchors (loops, ifs, match arms, returns) by *ordinal*.
Nothing here evaluates or rewrites Rust; callers only insert text at token boundaries."""
import re
from collections import namedtuple

Tok = namedtuple("Tok", "kind text start end")  # kind: ws comment str char life ident num punct

_IDENT = re.compile(r"[A-Za-z_][A-Za-z0-9_]*")
_NUM = re.compile(r"[0-9][A-Za-z0-9_]*(\.[0-9][A-Za-z0-9_]*)?")
_PUNCT2 = ("=>", "->", "::", "..", "&&", "||", "==", "!=", "<=", ">=", "+=", "-=", "*=", "/=", "<<", ">>")


def lex(src):
    toks = []
    i, n = 0, len(src)
    while i < n:
        c = src[i]
        if c.isspace():
            j = i
            while j < n and src[j].isspace():
                j += 1
            toks.append(Tok("ws", src[i:j], i, j))
            i = j
        elif src.startswith("//", i):
            j = src.find("\n", i)
            j = n if j < 0 else j
            toks.append(Tok("comment", src[i:j], i, j))
            i = j
        elif src.startswith("/*", i):
            depth, j = 1, i + 2
            while j < n and depth:
                if src.startswith("/*", j):
                    depth += 1
                    j += 2
                elif src.startswith("*/", j):
                    depth -= 1
                    j += 2
                else:
                    j += 1
            toks.append(Tok("comment", src[i:j], i, j))
            i = j
        elif c == '"' or (c in "br" and re.match(r'(b?r#*"|b")', src[i:i + 6])):
            m = re.match(r'(b?)(r(#*))?"', src[i:])
            if m.group(2) is not None:
                close = '"' + m.group(3)
                j = src.find(close, i + m.end())
                j = n if j < 0 else j + len(close)
            else:
                j = i + m.end()
                while j < n and src[j] != '"':
                    j += 2 if src[j] == "\\" else 1
                j += 1
            toks.append(Tok("str", src[i:j], i, j))
            i = j
        elif c == "'" or (c == "b" and src.startswith("b'", i)):
            k = i + (2 if c == "b" else 1)
            m = re.match(r"(\\(u\{[0-9a-fA-F_]+\}|x[0-9a-fA-F]{2}|.)|[^\\'])'", src[k:])
            if m:
                j = k + m.end()
                toks.append(Tok("char", src[i:j], i, j))
            else:
                m2 = _IDENT.match(src, k)
                j = m2.end() if m2 else k
                toks.append(Tok("life", src[i:j], i, j))
            i = j
        elif c.isalpha() or c == "_":
            m = _IDENT.match(src, i)
            toks.append(Tok("ident", m.group(0), i, m.end()))
            i = m.end()
        elif c.isdigit():
            m = _NUM.match(src, i)
            toks.append(Tok("num", m.group(0), i, m.end()))
            i = m.end()
        else:
            two = src[i:i + 2]
            if two in _PUNCT2:
                toks.append(Tok("punct", two, i, i + 2))
                i += 2
            else:
                toks.append(Tok("punct", c, i, i + 1))
                i += 1
    return toks


def sig(toks):
    """Indices of significant tokens (no whitespace / comments)."""
    return [k for k, t in enumerate(toks) if t.kind not in ("ws", "comment")]


OPEN = {"(": ")", "[": "]", "{": "}"}
CLOSE = {")", "]", "}"}


def match_close(toks, k):
    """Index of the token closing the bracket opened at toks[k]."""
    depth = 0
    for j in range(k, len(toks)):
        t = toks[j]
        if t.kind != "punct":
            continue
        if t.text in OPEN:
            depth += 1
        elif t.text in CLOSE:
            depth -= 1
            if depth == 0:
                return j
    raise ValueError("unbalanced bracket at offset %d" % toks[k].start)


ITEM_KW = {"fn", "struct", "enum", "union", "trait", "impl", "mod", "use", "const", "static", "type",
           "macro_rules", "extern"}
QUALS = {"pub", "unsafe", "async", "default", "crate", "super", "in"}


class Item:
    def __init__(self, kind, name, header, start, end, body_open, body_close, toks_range, attrs_start):
        self.kind, self.name, self.header = kind, name, header
        self.start, self.end = start, end              # char offsets incl. attributes/doc comments
        self.body_open, self.body_close = body_open, body_close  # token indices of { } or None
        self.toks_range = toks_range                    # (first tok idx, last tok idx inclusive)
        self.attrs_start = attrs_start
        self.children = []

    def __repr__(self):
        return "<%s %s>" % (self.kind, self.header[:60])


def _norm(toks, a, b):
    return " ".join(t.text for t in toks[a:b] if t.kind not in ("ws", "comment"))


def parse_items(toks, lo=0, hi=None):
    """Items at nesting depth 0 of toks[lo:hi]."""
    hi = len(toks) if hi is None else hi
    items = []
    k = lo
    while k < hi:
        t = toks[k]
        if t.kind in ("ws",):
            k += 1
            continue
        first = k            # first token of the item incl. doc comments and attributes
        # doc comments + attributes
        j = k
        while j < hi:
            tj = toks[j]
            if tj.kind == "ws" or (tj.kind == "comment"):
                j += 1
            elif tj.kind == "punct" and tj.text == "#":
                # #[...] or #![...]
                b = j + 1
                while toks[b].kind == "ws" or (toks[b].kind == "punct" and toks[b].text == "!"):
                    b += 1
                if toks[b].text != "[":
                    break
                j = match_close(toks, b) + 1
            else:
                break
        if j >= hi:
            break
        # plain (non-doc) comments directly before an item are kept with it; harmless
        kw_idx = j
        # qualifiers
        while kw_idx < hi:
            tk = toks[kw_idx]
            if tk.kind == "ws" or tk.kind == "comment":
                kw_idx += 1
            elif tk.kind == "ident" and tk.text in QUALS:
                kw_idx += 1
            elif tk.kind == "punct" and tk.text == "(" and _prev_sig(toks, kw_idx).text == "pub":
                kw_idx = match_close(toks, kw_idx) + 1
            elif tk.kind == "ident" and tk.text == "const" and _next_sig(toks, kw_idx).text in ("fn", "unsafe"):
                kw_idx += 1
            elif tk.kind == "ident" and tk.text == "extern" and _next_sig(toks, kw_idx).kind == "str":
                kw_idx = _next_sig_idx(toks, kw_idx) + 1
            else:
                break
        if kw_idx >= hi:
            break
        kw = toks[kw_idx]
        kind = kw.text if kw.kind == "ident" else "?"
        # find the end of the item
        body_open = body_close = None
        end_idx = None
        if kind in ("use", "const", "static", "type") or kind not in ITEM_KW:
            # ends at `;` at depth 0 ; or macro invocation `name!(...);` / `name!{...}`
            m = kw_idx
            while m < hi:
                tm = toks[m]
                if tm.kind == "punct" and tm.text in OPEN:
                    c = match_close(toks, m)
                    if kind not in ITEM_KW and tm.text == "{" :
                        end_idx = c
                        break
                    m = c + 1
                    continue
                if tm.kind == "punct" and tm.text == ";":
                    end_idx = m
                    break
                m += 1
            if kind not in ITEM_KW:
                kind = "macro"
        else:
            m = kw_idx + 1
            angle = 0
            while m < hi:
                tm = toks[m]
                if tm.kind == "punct":
                    if tm.text in ("(", "["):
                        m = match_close(toks, m) + 1
                        continue
                    if tm.text == "{":
                        body_open = m
                        body_close = match_close(toks, m)
                        end_idx = body_close
                        break
                    if tm.text == ";":
                        end_idx = m
                        break
                m += 1
            if kind == "macro_rules" and end_idx is not None:
                nxt = end_idx + 1
                while nxt < hi and toks[nxt].kind == "ws":
                    nxt += 1
        if end_idx is None:
            raise ValueError("cannot find end of item starting at offset %d" % toks[first].start)
        # name / header
        hdr_end = body_open if body_open is not None else end_idx
        header = _norm(toks, kw_idx, hdr_end)
        name = None
        if kind in ("fn", "struct", "enum", "union", "trait", "mod", "const", "static", "type"):
            nn = _next_sig(toks, kw_idx)
            name = nn.text if nn and nn.kind == "ident" else None
        elif kind == "macro_rules":
            s = [t for t in toks[kw_idx:hdr_end] if t.kind == "ident"]
            name = s[1].text if len(s) > 1 else None
        it = Item(kind, name, header, toks[first].start, toks[end_idx].end, body_open, body_close,
                  (first, end_idx), first)
        it.kw_idx = kw_idx
        if kind in ("impl", "trait", "mod") and body_open is not None:
            it.children = parse_items(toks, body_open + 1, body_close)
        items.append(it)
        k = end_idx + 1
    return items


def _prev_sig(toks, k):
    j = k - 1
    while j >= 0 and toks[j].kind in ("ws", "comment"):
        j -= 1
    return toks[j]


def _prev_sig_idx(toks, k):
    j = k - 1
    while j >= 0 and toks[j].kind in ("ws", "comment"):
        j -= 1
    return j


def _next_sig_idx(toks, k):
    j = k + 1
    while j < len(toks) and toks[j].kind in ("ws", "comment"):
        j += 1
    return j


def _next_sig(toks, k):
    j = _next_sig_idx(toks, k)
    return toks[j] if j < len(toks) else None


# ------------------------------------------------------------------ structure inside a fn body

CTRL = ("while", "for", "loop", "if", "else", "match", "return", "break", "continue")


class FnShape:
    """Structural anchors of one function, by ordinal in token order."""

    def __init__(self, toks, item):
        self.toks, self.item = toks, item
        self.loops = []     # (kw_idx, open_idx, close_idx)
        self.ifs = []       # (kw_idx, then_open, then_close, else_open|None, else_close|None)
        self.matches = []   # (kw_idx, open_idx, close_idx, arms=[(pat_start, arrow_idx, body_open|None, body_close|None)])
        self.returns = []   # kw_idx
        self.fingerprint = []
        if item.body_open is None:
            return
        lo, hi = item.body_open + 1, item.body_close
        k = lo
        while k < hi:
            t = toks[k]
            if t.kind == "ident" and t.text in CTRL:
                self.fingerprint.append(t.text)
                if t.text in ("while", "for", "loop"):
                    o = self._block_after(k + 1, hi)
                    if o is not None:
                        self.loops.append((k, o, match_close(toks, o)))
                elif t.text == "if":
                    o = self._block_after(k + 1, hi)
                    if o is not None:
                        c = match_close(toks, o)
                        eo = ec = None
                        n1 = _next_sig_idx(toks, c)
                        if n1 < hi and toks[n1].kind == "ident" and toks[n1].text == "else":
                            n2 = _next_sig_idx(toks, n1)
                            if toks[n2].kind == "punct" and toks[n2].text == "{":
                                eo, ec = n2, match_close(toks, n2)
                        self.ifs.append((k, o, c, eo, ec))
                elif t.text == "match":
                    o = self._block_after(k + 1, hi)
                    if o is not None:
                        c = match_close(toks, o)
                        self.matches.append((k, o, c, self._arms(o, c)))
                elif t.text == "return":
                    self.returns.append(k)
            elif t.kind == "punct" and t.text == "?":
                self.fingerprint.append("?")
            k += 1

    def _block_after(self, k, hi):
        """First `{` at bracket depth 0 after index k (skipping (...) and [...])."""
        toks = self.toks
        while k < hi:
            t = toks[k]
            if t.kind == "punct":
                if t.text in ("(", "["):
                    k = match_close(toks, k) + 1
                    continue
                if t.text == "{":
                    return k
                if t.text == ";":
                    return None
            k += 1
        return None

    def _arms(self, o, c):
        toks = self.toks
        arms = []
        k = o + 1
        pat_start = None
        while k < c:
            t = toks[k]
            if t.kind in ("ws", "comment"):
                k += 1
                continue
            if pat_start is None:
                pat_start = k
            if t.kind == "punct" and t.text in OPEN:
                k = match_close(toks, k) + 1
                continue
            if t.kind == "punct" and t.text == "=>":
                b = _next_sig_idx(toks, k)
                if toks[b].kind == "punct" and toks[b].text == "{":
                    bc = match_close(toks, b)
                    arms.append((pat_start, k, b, bc))
                    k = bc + 1
                    n = _next_sig_idx(toks, bc)
                    if n < c and toks[n].text == ",":
                        k = n + 1
                else:
                    # expression arm: ends at `,` at depth 0 or at c
                    m = b
                    while m < c:
                        tm = toks[m]
                        if tm.kind == "punct" and tm.text in OPEN:
                            m = match_close(toks, m) + 1
                            continue
                        if tm.kind == "punct" and tm.text == ",":
                            break
                        m += 1
                    arms.append((pat_start, k, None, None))
                    k = m + 1
                pat_start = None
                continue
            k += 1
        return arms
