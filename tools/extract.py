"""Route V front end: build a Verus file from /repo's CURRENT sources.

  template (contracts/verus/<unit>/unit.rs)   -- prelude: spec functions, lemmas, boundary types
    + `//@extract <file> :: <selector> [{ child, child, ... }]`   -- real items cut out of /repo
  splices  (contracts/verus/<unit>/splices.vs) -- contract clauses keyed by item path + anchor

Extraction is purely additive at token boundaries (contract text is *inserted*), except for the
closed list of desugarings documented in DESIGN.md section 1.2 (D1, D2, D3, D5, D6, D7, D8, D9 and
dropped attributes), each requested explicitly in the splice file and logged with what it touched.

Selectors are compared with whitespace removed, exactly:   `trait CellType`, `impl CellType for u8`,
`impl<C: CellType> Memory<C>`, `fn execute_block`, `struct Memory`.
Children in `{...}`:  `fn name` (kept verbatim), `boundary fn name` (real signature kept, body
replaced by `{ unimplemented!() }` and `#[verifier::external_body]` added: an ASSUMED contract,
reported as such), `const NAME`, `type NAME`.

Anchors (by structure and ordinal, never by line number):
  before | sig | body_start | body_end | open | close
  loop K [body_start|body_end|after] | ret K | if K then_start|then_end|else_start|else_end
  match M arm A start|end | stmt_after_loop K
Transforms:  d1 <param>=<new> | d2 | d3 <name> | d5 <CONST>=<lit> | pub | shape <fingerprint...>
"""
import os
import re

import rustlex
from common import REPO, sha256_text


class LostAnchor(Exception):
    pass


def nows(s):
    return re.sub(r"\s+", "", s)


DROP_ATTRS = ("#[cold]", "#[inline]", "#[inline(always)]", "#[repr(C)]", "#[must_use]")


# ------------------------------------------------------------------------------ splice file

def expand_repeats(text):
    """Two forms.  One line:  `#@repeat A=1,B=x ; A=2,B=y` ... `#@end`.
    Multi-line (values may contain anything):
        #@repeat
        #@case
        #@with NAME := value
        #@case
        #@with NAME := other value
        #@body
        ...
        #@end
    The enclosed lines are repeated once per case with `${NAME}` substituted."""
    out, i = [], 0
    lines = text.split("\n")
    while i < len(lines):
        m = re.match(r"#@repeat\s*(.*)", lines[i])
        if not m:
            out.append(lines[i])
            i += 1
            continue
        j = i + 1
        while not lines[j].startswith("#@end"):
            j += 1
        cases = []
        if m.group(1).strip():
            for binding in m.group(1).split(";"):
                d = {}
                for kv in binding.split(","):
                    k, v = kv.strip().split("=", 1)
                    d[k.strip()] = v.strip()
                cases.append(d)
            body_start = i + 1
        else:
            k = i + 1
            while not lines[k].startswith("#@body"):
                if lines[k].startswith("#@case"):
                    cases.append({})
                else:
                    mm = re.match(r"#@with\s+(\w+)\s*:=\s?(.*)$", lines[k])
                    if mm:
                        cases[-1][mm.group(1)] = mm.group(2)
                k += 1
            body_start = k + 1
        block = "\n".join(lines[body_start:j])
        for d in cases:
            b = block
            for k2, v in d.items():
                b = b.replace("${%s}" % k2, v)
            out.append(b)
        i = j + 1
    return "\n".join(out)


def expand_includes(text, base_dir, imports):
    """`#@include <other splices.vs> :: <key> @ <anchor>` copies that block verbatim from another
    unit, so that a contract ASSUMED here is textually the contract PROVED there.  Each use is
    recorded in `imports` (reported as a cross-unit assumption)."""
    out = []
    for line in text.split("\n"):
        m = re.match(r"#@include\s+(\S+)\s*::\s*(.*?)\s+@\s+(.*?)\s*$", line)
        if not m:
            out.append(line)
            continue
        path = os.path.normpath(os.path.join(base_dir, m.group(1)))
        other = parse_splices(open(path).read(), os.path.dirname(path), None)
        key, anchor = nows(m.group(2)), m.group(3).strip()
        blocks = [t for a, t, n in other.get(key, []) if a == anchor]
        if len(blocks) != 1:
            raise ValueError("include %s :: %s @ %s: %d blocks" % (path, m.group(2), anchor, len(blocks)))
        out.append("@@ %s @ %s" % (m.group(2), anchor))
        out.append(blocks[0])
        if imports is not None:
            imports.append("%s @ %s  <-  %s" % (m.group(2), anchor, os.path.relpath(path, os.path.dirname(base_dir))))
    return "\n".join(out)


CANARY_MODE = [False]


def expand_canary(text):
    """A line `   #@canary <clause>` is dropped in a normal run and replaced by `<clause>` in the
    canary run -- a deliberately FALSE contract clause on a real function, which must make the
    verifier fail (vacuity guard: contradictory preconditions or an `assume(false)` would let it pass)."""
    out = []
    for line in text.split("\n"):
        m = re.match(r"(\s*)#@canary\s+(.*)$", line)
        if m:
            if CANARY_MODE[0]:
                out.append(m.group(1) + m.group(2))
        else:
            out.append(line)
    return "\n".join(out)


def parse_splices(text, base_dir=None, imports=None):
    """-> dict key -> list of (anchor, text, lineno)"""
    text = expand_repeats(text)
    text = expand_canary(text)
    if base_dir is not None:
        text = expand_includes(text, base_dir, imports)
    out = {}
    cur = None
    for n, line in enumerate(text.split("\n"), 1):
        if line.startswith("@@"):
            m = re.match(r"@@\s*(.*?)\s+@\s+(.*?)\s*$", line)
            if not m:
                raise ValueError("bad splice header line %d: %s" % (n, line))
            key = nows(m.group(1))
            cur = [m.group(2).strip(), [], n]
            out.setdefault(key, []).append(cur)
        elif line.startswith("#@"):      # comment line in the splice file
            continue
        elif cur is not None:
            cur[1].append(line)
    res = {}
    for k, lst in out.items():
        res[k] = [(a, "\n".join(t).strip("\n"), n) for a, t, n in lst]
    return res


# ------------------------------------------------------------------------------ extraction

class Extractor:
    def __init__(self, unit_dir, repo=REPO, canary=False):
        CANARY_MODE[0] = canary
        self.unit_dir = unit_dir
        self.repo = repo
        self.imports = []      # contract blocks copied verbatim from other units (cross-unit assumptions)
        self.splices = parse_splices(open(os.path.join(unit_dir, "splices.vs")).read(), unit_dir, self.imports)
        self.used_splices = set()
        self.files = {}
        self.log = []          # what was extracted / dropped / rewritten
        self.functions = []    # functions under contract: {key, file, lines, sha256, mode}
        self.srcmap = []       # (gen_line_lo, gen_line_hi, key, file, src_line_lo)

    def _file(self, rel):
        if rel not in self.files:
            p = os.path.join(self.repo, rel)
            if not os.path.exists(p):
                raise LostAnchor("file %s no longer exists" % rel)
            src = open(p).read()
            toks = rustlex.lex(src)
            self.files[rel] = (src, toks, rustlex.parse_items(toks))
        return self.files[rel]

    @staticmethod
    def _find(items, selector):
        want = nows(selector)
        hits = [it for it in items if nows(it.header) == want
                or (it.name and nows("%s %s" % (it.kind, it.name)) == want)]
        # `fn name` must not match on a longer header by accident
        return hits

    def _line(self, src, pos):
        return src.count("\n", 0, pos) + 1

    # -- edits for one fn-like item -------------------------------------------------------
    def _fn_edits(self, rel, src, toks, it, key, boundary, in_trait=False):
        edits = []   # (pos_start, pos_end, replacement, order)
        shape = rustlex.FnShape(toks, it)
        sp = self.splices.get(nows(key), [])
        if sp:
            self.used_splices.add(nows(key))
        body_inserts_first = []
        decl_start = toks[self._decl_start_idx(toks, it)].start

        def pos_of(anchor):
            a = anchor.split()
            try:
                if a[0] == "before":
                    return decl_start
                if a[0] == "sig":
                    end_idx = it.body_open if it.body_open is not None else it.toks_range[1]
                    return toks[end_idx].start
                if a[0] in ("body_start", "open"):
                    return toks[it.body_open].end
                if a[0] in ("body_end", "close"):
                    return toks[it.body_close].start
                if a[0] == "body_tail":
                    return self._tail(toks, it.body_open, it.body_close)
                if a[0] == "loop":
                    kw, o, c = shape.loops[int(a[1]) - 1]
                    if len(a) == 2:
                        return toks[o].start
                    return {"body_start": toks[o].end, "body_end": toks[c].start, "after": toks[c].end,
                            "before": toks[kw].start}[a[2]]
                if a[0] == "ret":
                    return toks[shape.returns[int(a[1]) - 1]].start
                if a[0] == "if":
                    kw, o, c, eo, ec = shape.ifs[int(a[1]) - 1]
                    d = {"then_start": toks[o].end, "then_end": toks[c].start,
                         "then_tail": self._tail(toks, o, c)}
                    if eo is not None:
                        d["else_start"] = toks[eo].end
                        d["else_end"] = toks[ec].start
                        d["else_tail"] = self._tail(toks, eo, ec)
                    return d[a[2]]
                if a[0] == "match":
                    kw, o, c, arms = shape.matches[int(a[1]) - 1]
                    ps, ar, bo, bc = arms[int(a[3]) - 1]
                    if bo is None:
                        raise LostAnchor("%s: match %s arm %s is not a block" % (key, a[1], a[3]))
                    return {"start": toks[bo].end, "end": toks[bc].start, "tail": self._tail(toks, bo, bc)}[a[4]]
            except (IndexError, KeyError, TypeError):
                raise LostAnchor("%s: anchor `%s` not found (structure of the function changed)" % (key, anchor))
            raise ValueError("unknown anchor `%s` for %s" % (anchor, key))

        order = 0
        for anchor, text, lineno in sp:
            a0 = anchor.split()[0]
            order += 1
            if a0 == "shape":
                want = text.split()
                if want != shape.fingerprint:
                    raise LostAnchor("%s: control-flow shape changed: expected [%s], found [%s]" % (
                        key, " ".join(want), " ".join(shape.fingerprint)))
            elif a0 == "d1":
                edits += self._d1(toks, it, anchor.split()[1], key)
            elif a0 == "d2":
                edits += self._d2(toks, it, key)
            elif a0 == "d3":
                edits += self._d3(toks, it, anchor.split()[1], key)
            elif a0 == "d5":
                edits += self._d5(toks, it, anchor.split(None, 1)[1], key)
            elif a0 == "d6":
                edits += self._d6(toks, it, shape, key)
            elif a0 == "d7":
                edits += self._d7(toks, it, anchor.split()[1], key)
            elif a0 == "d11":
                edits += self._d11(toks, it, int(anchor.split()[1]), text, key)
            elif a0 == "d12":
                edits += self._d12(toks, it, shape, key)
            elif a0 == "pub":
                pass
            else:
                p = pos_of(anchor)
                edits.append((p, p, "\n" + text + "\n", order))
        if boundary and in_trait:
            # default method of a trait taken as a declaration only: `{ body }` -> `;`
            if it.body_open is not None:
                edits.append((toks[it.body_open].start, toks[it.body_close].end, ";", 0))
        elif boundary:
            if it.body_open is not None:
                edits.append((toks[it.body_open].start, toks[it.body_close].end, "{ unimplemented!() }", 0))
            edits.append((decl_start, decl_start, "#[verifier::external_body]\n", -1))
        return edits, shape

    @staticmethod
    def _tail(toks, o, c):
        """Position of the tail expression of the block toks[o]..toks[c]: just after the last
        `;` at depth 0 (or the block start when there is none)."""
        k = o + 1
        last = toks[o].end
        while k < c:
            t = toks[k]
            if t.kind == "punct" and t.text in rustlex.OPEN:
                k = rustlex.match_close(toks, k) + 1
                continue
            if t.kind == "punct" and t.text == ";":
                last = t.end
            k += 1
        return last

    def _decl_start_idx(self, toks, it):
        """First token of the declaration proper (after doc comments and attributes)."""
        k = it.kw_idx
        j = k - 1
        first = k
        while j >= it.toks_range[0]:
            t = toks[j]
            if t.kind in ("ws", "comment"):
                j -= 1
                continue
            if t.kind == "ident" and t.text in rustlex.QUALS or (t.kind == "ident" and t.text in ("const", "extern")) \
                    or t.kind == "str":
                first = j
                j -= 1
                continue
            if t.kind == "punct" and t.text == ")":
                # pub(crate)
                d = 0
                m = j
                while m >= 0:
                    if toks[m].text == ")":
                        d += 1
                    elif toks[m].text == "(":
                        d -= 1
                        if d == 0:
                            break
                    m -= 1
                first = m
                j = m - 1
                continue
            break
        return first

    # -- desugarings ----------------------------------------------------------------------
    def _params_range(self, toks, it):
        k = it.kw_idx
        while toks[k].text != "(":
            if toks[k].text == "<":
                # skip generics
                d = 0
                while True:
                    if toks[k].text == "<":
                        d += 1
                    elif toks[k].text == ">":
                        d -= 1
                        if d == 0:
                            break
                    elif toks[k].text == ">>":
                        d -= 2
                        if d <= 0:
                            break
                    k += 1
            k += 1
        return k, rustlex.match_close(toks, k)

    def _d1(self, toks, it, arg, key):
        """`mut x: T` parameter -> immutable parameter + `let mut x = ...;` at body start."""
        param, new = arg.split("=")
        po, pc = self._params_range(toks, it)
        edits = []
        found = False
        k = po + 1
        while k < pc:
            if toks[k].kind == "ident" and toks[k].text == "mut":
                n = rustlex._next_sig_idx(toks, k)
                if toks[n].kind == "ident" and toks[n].text == param:
                    found = True
                    # drop `mut ` (up to the parameter name)
                    if param == "self":
                        edits.append((toks[k].start, toks[n].start, "", 0))
                    else:
                        edits.append((toks[k].start, toks[n].end, new, 0))
                    break
            k += 1
        if not found:
            raise LostAnchor("%s: D1 parameter `mut %s` not found" % (key, param))
        bs = toks[it.body_open].end
        if param == "self":
            edits.append((bs, bs, "\n let mut %s = self; // D1\n" % new, -5))
            for j in range(it.body_open + 1, it.body_close):
                if toks[j].kind == "ident" and toks[j].text == "self":
                    edits.append((toks[j].start, toks[j].end, new, 0))
        else:
            edits.append((bs, bs, "\n let mut %s = %s; // D1\n" % (param, new), -5))
        self.log.append("D1 %s: `mut %s` -> `%s`" % (key, param, new))
        return edits

    def _d2(self, toks, it, key):
        """`for &x in e {` -> `for x_ref in e { let x = *x_ref;`"""
        edits = []
        n = 0
        for j in range(it.body_open + 1, it.body_close):
            if toks[j].kind == "ident" and toks[j].text == "for":
                a = rustlex._next_sig_idx(toks, j)
                if toks[a].text == "&":
                    b = rustlex._next_sig_idx(toks, a)
                    if toks[b].kind == "ident":
                        name = toks[b].text
                        edits.append((toks[a].start, toks[b].end, name + "_ref", 0))
                        # body open
                        m = b
                        while toks[m].text != "{":
                            if toks[m].text in ("(", "["):
                                m = rustlex.match_close(toks, m)
                            m += 1
                        edits.append((toks[m].end, toks[m].end, " let %s = *%s_ref; // D2\n" % (name, name), -5))
                        n += 1
        if not n:
            raise LostAnchor("%s: D2 found no `for &x in`" % key)
        self.log.append("D2 %s: %d `for &x in` loop(s)" % (key, n))
        return edits

    def _d6(self, toks, it, shape, key):
        """`for p in &E {` -> `for p in it<K>: E.iter() {`  (K = ordinal of the loop).  This is the
        body of `impl IntoIterator for &SmallVec` (smallvec.rs: `self.iter()`) inlined, plus Verus's
        name for the ghost iterator so that invariants can mention the position."""
        edits, n = [], 0
        for k, (kw, o, c) in enumerate(shape.loops, 1):
            if toks[kw].text != "for":
                continue
            j = kw
            while not (toks[j].kind == "ident" and toks[j].text == "in"):
                j += 1
            a = rustlex._next_sig_idx(toks, j)
            if toks[a].text != "&":
                continue
            b = rustlex._next_sig_idx(toks, a)
            if toks[b].kind == "ident" and toks[b].text == "mut":
                continue
            edits.append((toks[a].start, toks[a].end, "it%d: " % k, 0))
            # end of the iterable expression = last significant token before the body `{`
            e = o - 1
            while toks[e].kind in ("ws", "comment"):
                e -= 1
            edits.append((toks[e].end, toks[e].end, ".iter()", 0))
            n += 1
        if not n:
            raise LostAnchor("%s: D6 found no `for x in &E` loop" % key)
        self.log.append("D6 %s: %d `for .. in &E` loop(s) -> `E.iter()` with named ghost iterator" % (key, n))
        return edits

    def _d12(self, toks, it, shape, key):
        """`for p in &mut E { B }` -> `let mut itK: usize = 0; while itK < E.len() { let p = &mut E[itK]; B itK += 1; }`
        (K = ordinal of the loop): the body of `impl IntoIterator for &mut SmallVec` (a slice
        `iter_mut()`) written as the index loop it stands for; invariants go to the usual `loop K` anchors."""
        edits, n = [], 0
        for k, (kw, o, c) in enumerate(shape.loops, 1):
            if toks[kw].text != "for":
                continue
            j = kw
            while not (toks[j].kind == "ident" and toks[j].text == "in"):
                j += 1
            pat = "".join(t.text for t in toks[kw + 1:j]).strip()
            a = rustlex._next_sig_idx(toks, j)
            if toks[a].text != "&":
                continue
            b = rustlex._next_sig_idx(toks, a)
            if not (toks[b].kind == "ident" and toks[b].text == "mut"):
                continue
            e = o - 1
            while toks[e].kind in ("ws", "comment"):
                e -= 1
            first = rustlex._next_sig_idx(toks, b)
            recv = "".join(t.text for t in toks[first:e + 1]).strip()
            if not re.fullmatch(r"\w+", pat):
                raise LostAnchor("%s: D12 supports a plain identifier pattern only, found `%s`" % (key, pat))
            edits.append((toks[kw].start, toks[e].end, "let mut it%d: usize = 0; // D12\n while it%d < %s.len()" % (k, k, recv), 0))
            edits.append((toks[o].end, toks[o].end, " let %s = &mut %s[it%d]; // D12\n" % (pat, recv, k), -5))
            edits.append((toks[c].start, toks[c].start, " it%d += 1; // D12\n" % k, 100000))
            n += 1
        if not n:
            raise LostAnchor("%s: D12 found no `for x in &mut E` loop" % key)
        self.log.append("D12 %s: %d `for x in &mut E` loop(s) -> index loop over `&mut E[i]`" % (key, n))
        return edits

    def _d11(self, toks, it, ordinal, text, key):
        """The `ordinal`-th `RECV.iter().all(|p| B)` / `.any(|p| B)` of the function is hoisted in front of
        the statement it occurs in as
            let mut d11_K = true|false; let mut d11_K_i: usize = 0;
            while d11_K_i < RECV.len() <splice text: invariant / decreases> { let p = &RECV[d11_K_i]; if !(B) { d11_K = false; } d11_K_i += 1; }
        and the expression is replaced by `d11_K`.  Valid for closures that only read (no early
        exit is needed then); the short-circuit of an enclosing `&&` / `||` is dropped likewise."""
        found = []
        j = it.body_open + 1
        while j < it.body_close:
            t = toks[j]
            if t.kind == "ident" and t.text in ("all", "any"):
                # pattern: . iter ( ) . all ( | p | BODY )
                sig = []
                q = j
                for _ in range(5):
                    q = rustlex._prev_sig_idx(toks, q)
                    sig.append(q)
                texts = [toks[x].text for x in sig]
                if texts == [".", ")", "(", "iter", "."]:
                    found.append((j, sig[-1]))
            j += 1
        if ordinal > len(found):
            raise LostAnchor("%s: D11 found %d `.iter().all/any(..)`, wanted number %d" % (key, len(found), ordinal))
        j, dot = found[ordinal - 1]
        kind = toks[j].text
        # receiver: the path expression before `.iter`: idents, `.`, `[..]`, `self`
        r = rustlex._prev_sig_idx(toks, dot)
        start = r
        while True:
            if toks[start].text == "]":
                # skip back over the index expression
                depth = 0
                while True:
                    if toks[start].text == "]":
                        depth += 1
                    elif toks[start].text == "[":
                        depth -= 1
                        if depth == 0:
                            break
                    start -= 1
                pv = rustlex._prev_sig_idx(toks, start)
                start = pv
                continue
            pv = rustlex._prev_sig_idx(toks, start)
            if toks[pv].text == ".":
                start = rustlex._prev_sig_idx(toks, pv)
                continue
            break
        recv = "".join(t.text for t in toks[start:r + 1]).strip()
        op = rustlex._next_sig_idx(toks, j)
        if toks[op].text != "(":
            raise LostAnchor("%s: D11: `(` expected after `%s`" % (key, kind))
        cl = rustlex.match_close(toks, op)
        b1 = rustlex._next_sig_idx(toks, op)
        pn = rustlex._next_sig_idx(toks, b1)
        b2 = rustlex._next_sig_idx(toks, pn)
        if toks[b1].text != "|" or toks[b2].text != "|" or toks[pn].kind != "ident":
            raise LostAnchor("%s: D11 supports closures of the form `|p| expr` only" % key)
        body = "".join(t.text for t in toks[b2 + 1:cl]).strip()
        body = re.sub(r"\s+", " ", body)
        pname = toks[pn].text
        # enclosing statement: back to the previous `;`, `{` or `}` at the same depth
        s0 = start
        depth = 0
        k = start - 1
        while k > it.body_open:
            tx = toks[k].text if toks[k].kind == "punct" else ""
            if tx in (")", "]", "}"):
                if tx == "}" and depth == 0:
                    break
                depth += 1
            elif tx in ("(", "[", "{"):
                if depth == 0:
                    break
                depth -= 1
            elif tx == ";" and depth == 0:
                break
            k -= 1
        s0 = rustlex._next_sig_idx(toks, k)
        v = "d11_%d" % ordinal
        init, upd = ("true", "if !(%s) { %s = false; }" % (body, v)) if kind == "all" else ("false", "if %s { %s = true; }" % (body, v))
        hoist = ("let mut %s: bool = %s; let mut %s_i: usize = 0; // D11\n while %s_i < %s.len()\n%s\n { let %s = &%s[%s_i]; %s %s_i += 1; }\n"
                 % (v, init, v, v, recv, text, pname, recv, v, upd, v))
        self.log.append("D11 %s: `%s.iter().%s(|%s| ..)` hoisted into an index loop (closure only reads; short-circuit dropped)" % (key, recv, kind, pname))
        return [(toks[s0].start, toks[s0].start, hoist, 50000 + ordinal), (toks[start].start, toks[cl].end, v, 0)]

    def _d7(self, toks, it, param, key):
        """`param: impl AsRef<Self>` -> `param: &Self`, `param.as_ref()` -> `param`."""
        po, pc = self._params_range(toks, it)
        edits, found = [], False
        k = po + 1
        while k < pc:
            if toks[k].kind == "ident" and toks[k].text == param and toks[rustlex._next_sig_idx(toks, k)].text == ":":
                c = rustlex._next_sig_idx(toks, k)
                ts = rustlex._next_sig_idx(toks, c)
                # type runs to the `,` or `)` at depth 0
                d, e = 0, ts
                while e < pc:
                    tx = toks[e].text
                    if toks[e].kind == "punct" and tx in ("<", "(", "["):
                        d += 1
                    elif toks[e].kind == "punct" and tx in (">", ")", "]"):
                        d -= 1
                    elif toks[e].kind == "punct" and tx == "," and d == 0:
                        break
                    e += 1
                ty = "".join(t.text for t in toks[ts:e]).strip()
                if not re.match(r"impl\s+AsRef\s*<\s*Self\s*>(\s*\+\s*Into\s*<\s*Self\s*>)?$", ty):
                    raise LostAnchor("%s: D7 parameter `%s` has type `%s`, not impl AsRef<Self>" % (key, param, ty))
                last = e - 1
                while toks[last].kind in ("ws", "comment"):
                    last -= 1
                edits.append((toks[ts].start, toks[last].end, "&Self", 0))
                found = True
                break
            k += 1
        if not found:
            raise LostAnchor("%s: D7 parameter `%s` not found" % (key, param))
        n = 0
        for j in range(it.body_open + 1, it.body_close):
            if toks[j].kind == "ident" and toks[j].text == param:
                a = rustlex._next_sig_idx(toks, j)
                b = rustlex._next_sig_idx(toks, a)
                c = rustlex._next_sig_idx(toks, b)
                d = rustlex._next_sig_idx(toks, c)
                if toks[a].text == "." and toks[b].text == "as_ref" and toks[c].text == "(" and toks[d].text == ")":
                    edits.append((toks[a].start, toks[d].end, "", 0))
                    n += 1
        self.log.append("D7 %s: `%s: impl AsRef<Self>` -> `&Self` (%d `.as_ref()` dropped)" % (key, param, n))
        return edits

    def _d3(self, toks, it, name, key):
        """`-> T` -> `-> (name: T)`"""
        po, pc = self._params_range(toks, it)
        k = rustlex._next_sig_idx(toks, pc)
        if toks[k].text != "->":
            raise LostAnchor("%s: D3 no return type" % key)
        s = rustlex._next_sig_idx(toks, k)
        end_idx = it.body_open if it.body_open is not None else it.toks_range[1]
        e = s
        j = s
        while j < end_idx:
            if toks[j].kind == "ident" and toks[j].text == "where":
                break
            if toks[j].kind not in ("ws", "comment"):
                e = j
            j += 1
        self.log.append("D3 %s: return value named `%s`" % (key, name))
        return [(toks[s].start, toks[s].start, "(%s: " % name, 0), (toks[e].end, toks[e].end, ")", 0)]

    def _d5(self, toks, it, arg, key):
        """const-generic parameter specialised to a literal -- what the compiler's
        monomorphisation does; optionally renames the copy: `d5 LIMITED=true name=execute_in_limited`."""
        parts = arg.split()
        cname, lit = parts[0].split("=")
        newname = None
        for p in parts[1:]:
            if p.startswith("name="):
                newname = p[5:]
        edits = []
        name_idx = rustlex._next_sig_idx(toks, it.kw_idx)
        if newname:
            edits.append((toks[name_idx].start, toks[name_idx].end, newname, 0))
        lt = rustlex._next_sig_idx(toks, name_idx)
        if toks[lt].text != "<":
            raise LostAnchor("%s: D5 function has no generics" % key)
        # matching `>`
        d, gt = 0, lt
        while True:
            tx = toks[gt].text
            if toks[gt].kind == "punct":
                if tx == "<":
                    d += 1
                elif tx == ">":
                    d -= 1
                elif tx == ">>":
                    d -= 2
                if d <= 0:
                    break
            gt += 1
        # split params at depth-1 commas
        params, cur, d = [], [], 0
        for j in range(lt + 1, gt):
            tx = toks[j].text
            if toks[j].kind == "punct" and tx in ("<", "(", "["):
                d += 1
            elif toks[j].kind == "punct" and tx in (">", ")", "]"):
                d -= 1
            if toks[j].kind == "punct" and tx == "," and d == 0:
                params.append(cur)
                cur = []
            else:
                cur.append(j)
        if any(toks[j].kind not in ("ws", "comment") for j in cur):
            params.append(cur)
        keep, found = [], False
        for prm in params:
            sigs = [toks[j].text for j in prm if toks[j].kind not in ("ws", "comment")]
            if len(sigs) >= 2 and sigs[0] == "const" and sigs[1] == cname:
                found = True
            else:
                keep.append("".join(toks[j].text for j in prm).strip())
        if not found:
            raise LostAnchor("%s: D5 const generic `%s` not found" % (key, cname))
        rep = "<" + ", ".join(keep) + ">" if keep else ""
        edits.append((toks[lt].start, toks[gt].end, rep, 0))
        n = 0
        for j in range(it.body_open + 1, it.body_close):
            if toks[j].kind == "ident" and toks[j].text == cname:
                edits.append((toks[j].start, toks[j].end, lit, 0))
                n += 1
        self.log.append("D5 %s: const generic %s := %s (%d uses)%s" % (
            key, cname, lit, n, (", copy named `%s`" % newname) if newname else ""))
        return edits

    # -- one //@extract directive ----------------------------------------------------------
    def extract(self, rel, selector, children_spec, variant=None):
        src, toks, items = self._file(rel)
        hits = self._find(items, selector)
        if len(hits) != 1:
            raise LostAnchor("%s :: `%s` matches %d items" % (rel, selector, len(hits)))
        it = hits[0]
        edits = []
        # a variant (`#name` at the end of the directive) selects its own set of splices, so that
        # the same item can be extracted twice (e.g. the two monomorphisations of a const generic)
        if variant:
            selector = "%s#%s" % (selector, variant)
        key = nows(selector)
        fnlist = []
        if it.kind == "fn":
            e, shape = self._fn_edits(rel, src, toks, it, selector, False)
            edits += e
            fnlist.append((selector, it, "verified"))
        else:
            # container-level splices (before / open / close)
            for anchor, text, lineno in self.splices.get(key, []):
                self.used_splices.add(key)
                a0 = anchor.split()[0]
                if a0 == "before":
                    p = toks[self._decl_start_idx(toks, it)].start
                elif a0 == "open":
                    p = toks[it.body_open].end
                elif a0 == "close":
                    p = toks[it.body_close].start
                elif a0 == "pub":
                    edits += self._pub(toks, it)
                    continue
                elif a0 == "header":
                    # replace the header text (used for D9-style derive expansion / trait bounds);
                    # must state the exact old header
                    old, new = text.split("\n=>\n")
                    if nows(old) != nows(it.header):
                        raise LostAnchor("%s: header changed" % selector)
                    edits.append((toks[it.kw_idx].start, toks[it.body_open].start, new + " ", 0))
                    self.log.append("header %s: `%s` -> `%s`" % (selector, it.header, new))
                    continue
                else:
                    raise ValueError("anchor `%s` not valid for container %s" % (anchor, selector))
                edits.append((p, p, "\n" + text + "\n", lineno))
            if children_spec is not None and it.kind == "struct":
                # D10: field projection -- keep only the named fields of a struct whose other fields
                # have types Verus cannot represent (std hash maps, self-referential parents); the
                # functions under contract may only touch the kept fields (anything else fails to compile)
                keep = {c.strip()[len("field "):].strip() for c in children_spec if c.strip().startswith("field ")}
                seen_f = set()
                k = it.body_open + 1
                fstart = None
                while k < it.body_close:
                    t = toks[k]
                    if t.kind in ("ws", "comment"):
                        k += 1
                        continue
                    if fstart is None:
                        fstart = k
                    if t.kind == "punct" and t.text in rustlex.OPEN:
                        k = rustlex.match_close(toks, k) + 1
                        continue
                    if t.kind == "punct" and t.text == "<":
                        d = 0
                        while True:
                            tx = toks[k].text
                            if toks[k].kind == "punct" and tx == "<":
                                d += 1
                            elif toks[k].kind == "punct" and tx == ">":
                                d -= 1
                            elif toks[k].kind == "punct" and tx == ">>":
                                d -= 2
                            if d <= 0:
                                break
                            k += 1
                        k += 1
                        continue
                    if (t.kind == "punct" and t.text == ",") or k == it.body_close - 1:
                        fend = k
                        names = [toks[j].text for j in range(fstart, fend + 1) if toks[j].kind == "ident" and toks[j].text != "pub"]
                        fname = names[0] if names else "?"
                        if fname in keep:
                            seen_f.add(fname)
                        else:
                            edits.append((toks[fstart].start, toks[fend].end, "", 0))
                        fstart = None
                    k += 1
                if keep - seen_f:
                    raise LostAnchor("%s :: %s: fields not found: %s" % (rel, selector, sorted(keep - seen_f)))
                self.log.append("D10 %s: fields kept %s, all other fields dropped" % (selector, sorted(keep)))
            elif children_spec is not None:
                want = {}
                for c in children_spec:
                    c = c.strip()
                    if not c:
                        continue
                    boundary = c.startswith("boundary ")
                    c2 = c[len("boundary "):] if boundary else c
                    want[nows(c2)] = boundary
                seen = set()
                for ch in it.children:
                    ck = nows("%s %s" % (ch.kind, ch.name)) if ch.name else nows(ch.header)
                    if ck in want:
                        seen.add(ck)
                        if ch.kind == "fn":
                            ckey = "%s > fn %s" % (selector, ch.name)
                            e, shape = self._fn_edits(rel, src, toks, ch, ckey, want[ck], in_trait=(it.kind == "trait"))
                            edits += e
                            mode = "verified"
                            if want[ck]:
                                mode = "assumed (contract only; body not in this unit)"
                            elif ch.body_open is None:
                                mode = "declaration (contract only)"
                            fnlist.append((ckey, ch, mode))
                    else:
                        edits.append((ch.start, ch.end, "", 0))
                missing = set(want) - seen
                if missing:
                    raise LostAnchor("%s :: %s: children not found: %s" % (rel, selector, sorted(missing)))
            else:
                for ch in it.children:
                    if ch.kind == "fn":
                        ckey = "%s > fn %s" % (selector, ch.name)
                        e, shape = self._fn_edits(rel, src, toks, ch, ckey, False)
                        edits += e
                        fnlist.append((ckey, ch, "verified"))
        # dropped attributes
        for j in range(it.toks_range[0], it.toks_range[1] + 1):
            if toks[j].kind == "punct" and toks[j].text == "#":
                b = rustlex._next_sig_idx(toks, j)
                if toks[b].text == "[":
                    c = rustlex.match_close(toks, b)
                    attr = nows(src[toks[j].start:toks[c].end])
                    if attr in DROP_ATTRS or attr.startswith("#[derive("):
                        edits.append((toks[j].start, toks[c].end, "", 0))
                        self.log.append("dropped attribute %s on %s" % (attr, selector))
        # apply
        text = self._apply(src, it.start, it.end, edits)
        if it.kind == "struct" and children_spec is not None:
            # D8 put `pub ` in front of fields that D10 dropped: remove the orphans
            text = re.sub(r"pub\s+(?=(pub\b|\}))", "", text)
        for ckey, ch, mode in fnlist:
            body = src[ch.start:ch.end]
            self.functions.append({"key": ckey, "file": rel,
                                   "lines": "%d-%d" % (self._line(src, toks[ch.kw_idx].start), self._line(src, ch.end)),
                                   "sha256": sha256_text(body)[:16], "mode": mode})
        return text, {"file": rel, "selector": selector,
                      "lines": "%d-%d" % (self._line(src, it.start), self._line(src, it.end))}

    def _pub(self, toks, it):
        """D8: widen visibility of a struct and its fields to pub."""
        edits = []
        ds = self._decl_start_idx(toks, it)
        if toks[ds].text != "pub":
            edits.append((toks[ds].start, toks[ds].start, "pub ", 10 ** 6))
        if it.kind == "struct" and it.body_open is not None:
            k = it.body_open + 1
            expect_field = True
            while k < it.body_close:
                t = toks[k]
                if t.kind in ("ws", "comment"):
                    k += 1
                    continue
                if t.text == "#":
                    b = rustlex._next_sig_idx(toks, k)
                    k = rustlex.match_close(toks, b) + 1
                    continue
                if expect_field:
                    if t.text != "pub":
                        edits.append((t.start, t.start, "pub ", 0))
                    expect_field = False
                if t.kind == "punct" and t.text in rustlex.OPEN:
                    k = rustlex.match_close(toks, k) + 1
                    continue
                if t.text == "<":
                    d = 0
                    while True:
                        if toks[k].text == "<":
                            d += 1
                        elif toks[k].text == ">":
                            d -= 1
                        elif toks[k].text == ">>":
                            d -= 2
                        if d <= 0:
                            break
                        k += 1
                if t.text == ",":
                    expect_field = True
                k += 1
        self.log.append("D8 pub-widened %s" % it.header)
        return edits

    @staticmethod
    def _apply(src, lo, hi, edits):
        # sort by position; for equal position: by order (stable)
        # insertions (s == e) at a position come before a replacement starting there
        edits = sorted(edits, key=lambda e: (e[0], 1 if e[1] > e[0] else 0, e[3]))
        out = []
        pos = lo
        for s, e, rep, _ in edits:
            if s < pos:
                if s == e:       # insertion inside an already replaced span: skip
                    continue
                if e <= pos:
                    continue
                s = pos
            out.append(src[pos:s])
            out.append(rep)
            pos = max(pos, e)
        out.append(src[pos:hi])
        return "".join(out)

    # -- whole template -------------------------------------------------------------------
    def build(self):
        tmpl = open(os.path.join(self.unit_dir, "unit.rs")).read()
        out_lines = []
        for line in tmpl.split("\n"):
            m = re.match(r"\s*//@extract\s+(\S+)\s*::\s*(.*?)\s*(\{(.*?)\})?\s*(?:#(\w+))?\s*$", line)
            if not m:
                out_lines.append(line)
                continue
            rel, selector, _, children, variant = m.group(1), m.group(2), m.group(3), m.group(4), m.group(5)
            spec = children.split(",") if children is not None else None
            text, info = self.extract(rel, selector, spec, variant=variant)
            lo = len(out_lines) + 1
            out_lines.append("// ---- extracted from %s:%s (%s)" % (rel, info["lines"], selector))
            out_lines += text.split("\n")
            out_lines.append("// ---- end of extract")
            self.srcmap.append((lo, len(out_lines), selector, rel, info["lines"]))
        unused = set(self.splices) - self.used_splices
        if unused:
            raise LostAnchor("splices for items that were not extracted: %s" % sorted(unused))
        return "\n".join(out_lines)


if __name__ == "__main__":
    import sys
    ex = Extractor(sys.argv[1])
    try:
        text = ex.build()
    except LostAnchor as e:
        print("LOST ANCHOR:", e)
        sys.exit(2)
    open(sys.argv[2], "w").write(text)
    for l in ex.log:
        print("  ", l)
    for f in ex.functions:
        print("  fn", f)
