// PROTOTYPE (design-phase probe, not framework): trait-level contracts for CellType.
use vstd::prelude::*;
use vstd::arithmetic::power2::*;
use vstd::arithmetic::power::*;
use vstd::arithmetic::div_mod::*;
use vstd::arithmetic::mul::*;
use vstd::std_specs::cmp::PartialEqSpec;
verus! {

// ---- number theory lemmas -------------------------------------------------------------

pub proof fn lemma_mul_cong(a: int, a2: int, b: int, b2: int, m: int)
    requires m > 0, a % m == a2 % m, b % m == b2 % m
    ensures (a * b) % m == (a2 * b2) % m
{
    lemma_mul_mod_noop_general(a, b, m);
    lemma_mul_mod_noop_general(a2, b2, m);
}

pub proof fn lemma_pow_mod(b: int, e: nat, m: int)
    requires m > 0
    ensures pow(b % m, e) % m == pow(b, e) % m
    decreases e
{
    reveal(pow);
    if e == 0 {
    } else {
        lemma_pow_mod(b, (e - 1) as nat, m);
        lemma_mod_twice(b, m);
        lemma_mul_cong(b % m, b, pow(b % m, (e-1) as nat), pow(b, (e-1) as nat), m);
    }
}

/// pow(b, e) == pow(b*b, e/2) * (b if e odd)
pub proof fn lemma_pow_halve(b: int, e: nat)
    ensures pow(b, e) == pow(b * b, e / 2) * (if e % 2 == 1 { b } else { 1 })
{
    let q = e / 2;
    lemma_fundamental_div_mod(e as int, 2);
    lemma_pow_multiplies(b, 2, q);       // pow(pow(b,2), q) == pow(b, 2*q)
    lemma_pow1(b);
    lemma_pow_adds(b, 1, 1);             // pow(b,2) == b*b
    assert(pow(b, 2) == b * b);
    if e % 2 == 1 {
        assert(e == 2 * q + 1);
        lemma_pow_adds(b, 2 * q, 1);
        assert(pow(b, e) == pow(b, 2 * q) * b);
    } else {
        assert(e == 2 * q);
    }
}


/// Euler for powers of two: a odd ==> a^(2^(k-1)) == 1 (mod 2^k), k >= 1.
pub proof fn lemma_odd_pow_one(a: int, k: nat)
    requires a >= 0, a % 2 == 1, k >= 1
    ensures pow(a, pow2((k - 1) as nat)) % (pow2(k) as int) == 1
    decreases k
{
    lemma2_to64();
    if k == 1 {
        lemma_pow1(a);
    } else {
        let k1 = (k - 1) as nat;
        lemma_odd_pow_one(a, k1);
        let e = pow2((k1 - 1) as nat);
        let t = pow(a, e);
        let p = pow2(k1) as int;      // 2^(k-1)
        lemma_pow2_pos(k1);
        assert(a > 0);
        lemma_pow_positive(a, e);
        assert(t > 0);
        // pow2(k1) == 2 * e ; pow2(k) == 2 * p
        lemma_pow2_unfold(k1);
        lemma_pow2_unfold(k);
        assert(pow2(k1) == 2 * e);
        assert(pow2(k) == 2 * p);
        // pow(a, 2e) == t*t
        lemma_pow_adds(a, e, e);
        assert(pow(a, pow2(k1)) == t * t);
        // t = 1 + m*p
        let m = t / p;
        lemma_fundamental_div_mod(t, p);
        assert(t == p * m + 1);
        // t*t = 1 + 2p * (m + m*m*(p/2))   where p even since k1 >= 1
        lemma_pow2_unfold(k1);
        let h = pow2((k1 - 1) as nat) as int; // p == 2h
        assert(p == 2 * h);
        assert(t * t == 1 + (2 * p) * (m + m * m * h)) by (nonlinear_arith)
            requires t == p * m + 1, p == 2 * h;
        lemma_mod_multiples_vanish(m + m * m * h, 1, 2 * p);
        lemma_small_mod(1, (2 * p) as nat);
    }
}



/// Core of the 2-adic division: all in mathematical integers.
pub proof fn lemma_div_core(n: int, d: int, w: nat, sh: nat, inv: int, x: int)
    requires
        sh < w,
        0 < n < pow2(w), 0 < d < pow2(w),
        d % (pow2(sh) as int) == 0, (d / (pow2(sh) as int)) % 2 == 1,
        n % (pow2(sh) as int) == 0,
        0 <= inv,
        inv % (pow2((w - sh) as nat) as int)
            == pow(d / (pow2(sh) as int), (pow2((w - sh - 1) as nat) - 1) as nat) % (pow2((w - sh) as nat) as int),
        x == (inv * (n / (pow2(sh) as int))) % (pow2((w - sh) as nat) as int),
    ensures
        0 <= x < pow2((w - sh) as nat),
        (x * d) % (pow2(w) as int) == n,
        forall|y: int| 0 <= y && #[trigger] ((y * d) % (pow2(w) as int)) == n ==> y >= x,
{
    let k = (w - sh) as nat;
    let S = pow2(sh) as int;
    let P = pow2(k) as int;
    let m = pow2(w) as int;
    let dp = d / S;
    let np = n / S;
    lemma_pow2_pos(sh); lemma_pow2_pos(k); lemma_pow2_pos(w);
    lemma_pow2_adds(sh, k);
    assert(m == S * P);
    assert(P > 1) by { lemma_pow2_strictly_increases(0, k); lemma2_to64(); }
    lemma_fundamental_div_mod(d, S);
    lemma_fundamental_div_mod(n, S);
    assert(d == S * dp);
    assert(n == S * np);
    // np < P
    assert(0 <= np < P) by (nonlinear_arith)
        requires n == S * np, 0 < n < S * P, S > 0;
    assert(dp > 0) by (nonlinear_arith) requires d == S * dp, d > 0, S > 0;
    // Euler: dp^(2^(k-1)) % P == 1
    lemma_odd_pow_one(dp, k);
    let h = pow2((k - 1) as nat) as int;
    lemma_pow2_pos((k - 1) as nat);
    let E = (h - 1) as nat;
    lemma_pow_adds(dp, E, 1);
    lemma_pow1(dp);
    assert(pow(dp, h as nat) == pow(dp, E) * dp);
    // inv * dp == 1 (mod P)
    lemma_mod_twice(pow(dp, E), P);
    lemma_mul_cong(inv, pow(dp, E), dp, dp, P);
    assert((inv * dp) % P == 1);
    lemma_mod_bound(inv * np, P);
    // Claim 1
    assert((x * dp) % P == np) by {
        // x == (inv*np) % P
        lemma_mod_twice(inv * np, P);
        lemma_mul_cong(x, inv * np, dp, dp, P);
        assert((inv * np) * dp == (inv * dp) * np) by (nonlinear_arith);
        lemma_small_mod(1, P as nat);
        lemma_mul_cong(inv * dp, 1, np, np, P);
        lemma_small_mod(np as nat, P as nat);
    }
    assert((x * d) % m == n) by {
        assert(x * d == S * (x * dp)) by (nonlinear_arith) requires d == S * dp;
        lemma_truncate_middle(x * dp, S, P);
    }
    // Claim 2
    assert forall|y: int| 0 <= y && #[trigger] ((y * d) % m) == n implies y >= x by {
        assert(y * d == S * (y * dp)) by (nonlinear_arith) requires d == S * dp;
        lemma_truncate_middle(y * dp, S, P);
        assert(S * ((y * dp) % P) == S * np);
        assert((y * dp) % P == np) by (nonlinear_arith)
            requires S * ((y * dp) % P) == S * np, S > 0;
        // y == y * (dp*inv) == (y*dp)*inv == np*inv == x (mod P)
        lemma_small_mod(1, P as nat);
        lemma_mul_cong(y, y, 1, inv * dp, P);
        assert(y * 1 == y);
        assert(y * (inv * dp) == (y * dp) * inv) by (nonlinear_arith);
        lemma_mod_twice(y * dp, P);
        lemma_small_mod(np as nat, P as nat);
        lemma_mul_cong(y * dp, np, inv, inv, P);
        assert(np * inv == inv * np) by (nonlinear_arith);
        assert(y % P == x);
        lemma_mod_bound(y, P);
        lemma_fundamental_div_mod(y, P);
        assert(y >= y % P) by (nonlinear_arith)
            requires y == P * (y / P) + y % P, y >= 0, P > 0, 0 <= y % P < P;
    }
}


/// No solution when the divisor has more trailing zeros than the dividend.
pub proof fn lemma_div_none(n: int, d: int, w: nat, sh: nat, t: nat)
    requires
        0 < n < pow2(w), 0 <= d < pow2(w),
        t < sh, sh <= w,
        d == 0 || d % (pow2(sh) as int) == 0,
        n % (pow2(t) as int) == 0, (n / (pow2(t) as int)) % 2 == 1,
    ensures
        forall|y: int| 0 <= y ==> #[trigger] ((y * d) % (pow2(w) as int)) != n,
{
    let m = pow2(w) as int;
    lemma_pow2_pos(w);
    assert forall|y: int| 0 <= y implies #[trigger] ((y * d) % m) != n by {
        if d == 0 {
            assert(y * d == 0) by (nonlinear_arith) requires d == 0;
            lemma_small_mod(0, m as nat);
        } else {
            let T = pow2(t + 1) as int;
            let A = pow2(t) as int;
            lemma_pow2_pos(t); lemma_pow2_pos(t + 1);
            lemma_pow2_unfold(t + 1);
            assert(T == 2 * A);
            // n % T == A != 0
            let q = n / A;
            lemma_fundamental_div_mod(n, A);
            assert(n == A * q);
            lemma_truncate_middle(q, A, 2);
            assert(n % T == A * (q % 2));
            assert(n % T == A);
            // T divides 2^sh and m
            let r1 = pow2((sh - t - 1) as nat) as int;
            let r2 = pow2((w - t - 1) as nat) as int;
            lemma_pow2_adds(t + 1, (sh - t - 1) as nat);
            lemma_pow2_adds(t + 1, (w - t - 1) as nat);
            lemma_pow2_pos((sh - t - 1) as nat); lemma_pow2_pos((w - t - 1) as nat);
            // d % T == 0
            lemma_mod_mod(d, T, r1);
            lemma_small_mod(0, T as nat);
            assert(d % T == 0);
            // (y*d) % T == 0
            lemma_mul_cong(y, y, d, 0, T);
            assert(y * 0 == 0);
            assert((y * d) % T == 0);
            // ((y*d) % m) % T == (y*d) % T
            lemma_mod_mod(y * d, T, r2);
            if (y * d) % m == n {
                assert(n % T == 0);
                assert(false);
            }
        }
    }
}

pub open spec fn m_of(bits: nat) -> int { pow2(bits) as int }

pub trait CellType: Copy + Ord + Sized {
    const BITS: u32;
    const ZERO: Self;
    const ONE: Self;
    const NEG_ONE: Self;

    spec fn v(self) -> nat;
    spec fn bits() -> nat;

    proof fn facts()
        ensures Self::bits() == Self::BITS as nat, 8 <= Self::bits() <= 64,
                Self::ZERO.v() == 0, Self::ONE.v() == 1, Self::NEG_ONE.v() == pow2(Self::bits()) - 1;
    proof fn v_lt(x: Self) ensures x.v() < pow2(Self::bits());
    proof fn eq_facts(a: Self, b: Self)
        ensures <Self as PartialEqSpec>::obeys_eq_spec(), a.eq_spec(&b) == (a.v() == b.v());
    proof fn eq_all()
        ensures <Self as PartialEqSpec>::obeys_eq_spec(),
                forall|a: Self, b: Self| #[trigger] a.eq_spec(&b) == (a.v() == b.v());

    fn wrapping_add(self, rhs: Self) -> (r: Self)
        ensures r.v() as int == (self.v() + rhs.v()) as int % m_of(Self::bits());

    fn wrapping_mul(self, rhs: Self) -> (r: Self)
        ensures r.v() as int == (self.v() * rhs.v()) as int % m_of(Self::bits());

    fn bitand(self, rhs: Self) -> (r: Self)
        ensures forall|j: nat| j <= Self::bits() && rhs.v() + 1 == pow2(j) ==> r.v() == self.v() % pow2(j);

    fn wrapping_shr(self, by: u32) -> (r: Self)
        ensures r.v() == (if (by as nat) < Self::bits() { self.v() / pow2(by as nat) } else { 0 });

    fn wrapping_shl(self, by: u32) -> (r: Self)
        ensures r.v() as int == (if (by as nat) < Self::bits() { (self.v() * pow2(by as nat)) as int % m_of(Self::bits()) } else { 0 });

    spec fn tz(self) -> nat;
    proof fn tz_facts(x: Self)
        ensures x.tz() <= Self::bits(),
                x.v() == 0 ==> x.tz() == Self::bits(),
                x.v() != 0 ==> x.tz() < Self::bits() && x.v() % pow2(x.tz()) == 0
                                  && (x.v() / pow2(x.tz())) % 2 == 1;
    fn trailing_zeros(self) -> (r: u32)
        ensures r as nat == self.tz();

    /// Return true if the value is odd.
    fn is_odd(self) -> (r: bool)
        ensures r == (self.v() % 2 == 1)
    {
        proof {
            Self::facts(); lemma2_to64();
            Self::eq_all();
            assert(Self::ONE.v() + 1 == pow2(1));
        }
        self.bitand(Self::ONE) == Self::ONE
    }

    /// Wrapping exponentiation.
    fn wrapping_pow(self, exp_0: Self) -> (r: Self)
        ensures r.v() as int == pow(self.v() as int, exp_0.v()) % m_of(Self::bits())
    {
        let mut base = self; let mut exp = exp_0;   // D1
        let mut result = Self::ONE;
        proof {
            Self::facts(); lemma_pow2_pos(Self::bits());
            assert(pow2(Self::bits()) > 1) by { lemma_pow2_strictly_increases(0, Self::bits()); lemma2_to64(); }
            lemma_small_mod(1, pow2(Self::bits()));
            reveal(pow);
        }
        while exp != Self::ZERO
            invariant
                m_of(Self::bits()) > 1,
                (result.v() as int * pow(base.v() as int, exp.v())) % m_of(Self::bits())
                    == pow(self.v() as int, exp_0.v()) % m_of(Self::bits()),
            decreases exp.v()
        {
            let ghost m = m_of(Self::bits());
            let ghost b0 = base.v() as int;
            let ghost e0 = exp.v();
            let ghost r0 = result.v() as int;
            proof {
                Self::facts(); lemma2_to64(); Self::eq_facts(exp, Self::ZERO);
                assert(e0 != 0);
                lemma_div_decreases(e0 as int, 2);
                lemma_pow_halve(b0, e0);
            }
            if exp.is_odd() {
                result = result.wrapping_mul(base);
            }
            base = base.wrapping_mul(base);
            exp = exp.wrapping_shr(1);
            proof {
                let q = e0 / 2;
                assert(pow2(1) == 2) by { lemma2_to64(); }
                assert(exp.v() == q);
                // pow(base', q) % m == pow(b0*b0, q) % m
                lemma_pow_mod(b0 * b0, q, m);
                assert(base.v() as int == (b0 * b0) % m);
                let pb = pow(b0 * b0, q);
                let pb2 = pow(base.v() as int, q);
                assert(pb2 % m == pb % m);
                if e0 % 2 == 1 {
                    assert(result.v() as int == (r0 * b0) % m);
                    lemma_mod_twice(r0 * b0, m);
                    lemma_mul_cong(result.v() as int, r0 * b0, pb2, pb, m);
                    assert((r0 * b0) * pb == r0 * (pb * b0)) by (nonlinear_arith);
                } else {
                    lemma_mul_cong(result.v() as int, r0, pb2, pb, m);
                    assert(pb * 1 == pb);
                }
            }
        }
        proof {
            Self::eq_facts(exp, Self::ZERO); Self::facts();
            reveal(pow);
            assert(pow(base.v() as int, 0) == 1);
            Self::v_lt(result);
            lemma_small_mod(result.v(), pow2(Self::bits()));
        }
        result
    }

    fn wrapping_inv(self) -> (r: Option<Self>)
        ensures match r {
            Some(i) => self.v() % 2 == 1 && (i.v() * self.v()) as int % m_of(Self::bits()) == 1,
            None => self.v() % 2 == 0,
        }
    {
        if self.is_odd() {
            proof { Self::facts(); }
            let tot = Self::ONE.wrapping_shl(Self::BITS - 1);
            let inv = self.wrapping_pow(tot.wrapping_add(Self::NEG_ONE));
            proof {
                let w = Self::bits();
                let m = m_of(w);
                let a = self.v() as int;
                let h = pow2((w - 1) as nat) as int;
                lemma_pow2_pos(w); lemma_pow2_pos((w - 1) as nat);
                lemma_pow2_unfold(w);
                assert(m == 2 * h);
                // tot.v() == h
                assert(1 * h == h);
                lemma_small_mod(h as nat, m as nat);
                assert(tot.v() as int == h);
                // (h + m - 1) % m == h - 1
                lemma_mod_multiples_vanish(1, h - 1, m);
                lemma_small_mod((h - 1) as nat, m as nat);
                assert((h + (m - 1)) % m == h - 1);
                assert(inv.v() as int == pow(a, (h - 1) as nat) % m);
                // inv * a == a^(h-1) * a == a^h (mod m)
                lemma_pow_adds(a, (h - 1) as nat, 1);
                lemma_pow1(a);
                assert(pow(a, h as nat) == pow(a, (h - 1) as nat) * a);
                lemma_odd_pow_one(a, w);
                assert(pow(a, h as nat) % m == 1);
                lemma_mod_twice(pow(a, (h - 1) as nat), m);
                lemma_mul_cong(inv.v() as int, pow(a, (h - 1) as nat), a, a, m);
            }
            Some(inv)
        } else {
            None
        }
    }

    fn wrapping_div(self, div_0: Self) -> (r: Option<Self>)
        ensures match r {
            Some(x) => (x.v() * div_0.v()) as int % m_of(Self::bits()) == self.v()
                && forall|y: int| 0 <= y && #[trigger] ((y * div_0.v() as int) % m_of(Self::bits())) == self.v() ==> y >= x.v(),
            None => forall|y: int| 0 <= y ==> #[trigger] ((y * div_0.v() as int) % m_of(Self::bits())) != self.v(),
        }
    {
        let ghost n = self.v() as int;
        let div = div_0; // D1-style: keep the original for the contract
        let ghost d = div_0.v() as int;
        let ghost w = Self::bits();
        let ghost m = m_of(w);
        proof { Self::facts(); Self::eq_all(); Self::v_lt(self); Self::v_lt(div_0); lemma_pow2_pos(w); }
        let shift = div.trailing_zeros();
        if self == Self::ZERO {
            proof {
                assert(0 * d == 0);
                lemma_small_mod(0, m as nat);
            }
            Some(Self::ZERO)
        } else if shift > self.trailing_zeros() {
            proof {
                Self::tz_facts(self); Self::tz_facts(div);
                lemma_div_none(n, d, w, div_0.tz(), self.tz());
            }
            None
        } else {
            proof { Self::tz_facts(self); Self::tz_facts(div_0); assert(n != 0); assert((shift as nat) < w); }
            let div = div.wrapping_shr(shift);
            let tot = Self::ONE.wrapping_shl(Self::BITS - shift - 1);
            let inv = div.wrapping_pow(tot.wrapping_add(Self::NEG_ONE));
            let result = inv.wrapping_mul(self.wrapping_shr(shift));
            proof {
                Self::tz_facts(self); Self::tz_facts(div_0);
                let sh = shift as nat;
                let k = (w - sh) as nat;
                let S = pow2(sh) as int;
                let P = pow2(k) as int;
                lemma_pow2_pos(sh); lemma_pow2_pos(k); lemma_pow2_pos((k - 1) as nat);
                lemma_pow2_adds(sh, k);
                assert(m == S * P);
                assert(P > 1) by { lemma_pow2_strictly_increases(0, k); lemma2_to64(); }
                assert(P <= m) by (nonlinear_arith) requires m == S * P, S >= 1, P >= 1;
                let t = self.tz();
                // n % S == 0 because sh <= t
                lemma_pow2_adds(sh, (t - sh) as nat);
                lemma_pow2_pos((t - sh) as nat);
                lemma_mod_mod(n, S, pow2((t - sh) as nat) as int);
                lemma_small_mod(0, S as nat);
                assert(n % S == 0);
                // div.v() == d / S
                assert(div.v() as int == d / S);
                // tot.v() == 2^(k-1)
                let h = pow2((k - 1) as nat) as int;
                lemma_pow2_unfold(k);
                assert(P == 2 * h);
                assert(1 * h == h);
                lemma_small_mod(h as nat, m as nat);
                assert(tot.v() as int == h);
                lemma_mod_multiples_vanish(1, h - 1, m);
                lemma_small_mod((h - 1) as nat, m as nat);
                assert((h + (m - 1)) % m == h - 1);
                assert(inv.v() as int == pow(d / S, (h - 1) as nat) % m);
                // reduce mod P
                lemma_mod_mod(pow(d / S, (h - 1) as nat), P, S);
                assert(S * P == P * S) by (nonlinear_arith);
                assert((inv.v() as int) % P == pow(d / S, (h - 1) as nat) % P);
                // result
                let np = n / S;
                assert(result.v() as int == (inv.v() as int * np) % m);
                lemma_mod_mod(inv.v() as int * np, P, S);
                let x = (inv.v() as int * np) % P;
                assert((result.v() as int) % P == x);
                lemma_div_core(n, d, w, sh, inv.v() as int, x);
                // mask value + 1 == 2^k
                if sh == 0 {
                    assert(k == w);
                    lemma_small_mod((m - 1) as nat, m as nat);
                } else {
                    lemma_pow2_strictly_increases(k, w);
                    lemma_small_mod(P as nat, m as nat);
                    assert(1 * P == P);
                    lemma_mod_multiples_vanish(1, P - 1, m);
                    lemma_small_mod((P - 1) as nat, m as nat);
                }
            }
            Some(
                result.bitand(
                    Self::ONE
                        .wrapping_shl(Self::BITS - shift)
                        .wrapping_add(Self::NEG_ONE),
                ),
            )
        }
    }
}


pub assume_specification [u8::checked_shr] (x: u8, by: u32) -> (r: Option<u8>)
    ensures r == (if by < 8 { Some(x >> by) } else { None::<u8> });
pub assume_specification [u8::checked_shl] (x: u8, by: u32) -> (r: Option<u8>)
    ensures r == (if by < 8 { Some(x << by) } else { None::<u8> });

impl CellType for u8 {
    const BITS: u32 = 8;
    const ZERO: Self = 0;
    const ONE: Self = 1;
    const NEG_ONE: Self = u8::MAX;

    open spec fn v(self) -> nat { self as nat }
    open spec fn bits() -> nat { 8 }
    open spec fn tz(self) -> nat { vstd::std_specs::bits::u8_trailing_zeros(self) as nat }

    proof fn facts() { lemma2_to64(); }
    proof fn v_lt(x: Self) { lemma2_to64(); }
    proof fn eq_facts(a: Self, b: Self) {}
    proof fn eq_all() {}
    proof fn tz_facts(x: Self) {
        vstd::std_specs::bits::axiom_u8_trailing_zeros(x);
        let t = vstd::std_specs::bits::u8_trailing_zeros(x);
        lemma2_to64();
        if x != 0 {
            let tt = t as u8;
            assert(0 <= t < 8);
            vstd::bits::lemma_u8_shr_is_div(x, tt);
            assert(((x >> tt) & 1u8 == 1u8) ==> ((x >> tt) % 2 == 1)) by (bit_vector);
            vstd::bits::lemma_u8_shl_is_mul(1u8, tt);
            assert(tt < 8 && (x << sub(8u8, tt)) == 0u8 ==> x % (1u8 << tt) == 0u8) by (bit_vector);
        }
    }

    fn wrapping_add(self, rhs: Self) -> (r: Self) {
        proof {
            lemma2_to64();
            let t = self as int + rhs as int;
            if t >= 256 { lemma_mod_multiples_vanish(-1, t, 256); lemma_small_mod((t - 256) as nat, 256); }
            else { lemma_small_mod(t as nat, 256); }
        }
        self.wrapping_add(rhs)
    }
    fn wrapping_mul(self, rhs: Self) -> (r: Self) {
        proof { lemma2_to64(); }
        self.wrapping_mul(rhs)
    }
    fn bitand(self, rhs: Self) -> (r: Self) {
        proof {
            lemma2_to64();
            assert forall|j: nat| j <= 8 && rhs as nat + 1 == pow2(j) implies (self & rhs) as nat == self as nat % pow2(j) by {
                if j < 8 {
                    vstd::bits::lemma_u8_low_bits_mask_is_mod(self, j);
                    assert(vstd::bits::low_bits_mask(j) == rhs);
                } else {
                    assert(rhs == 255u8);
                    assert(self & 255u8 == self) by (bit_vector);
                }
            }
        }
        self & rhs
    }
    fn wrapping_shr(self, by: u32) -> (r: Self) {
        proof { lemma2_to64(); if by < 8 { vstd::bits::lemma_u8_shr_is_div(self, by as u8); } }
        self.checked_shr(by).unwrap_or(0)
    }
    fn wrapping_shl(self, by: u32) -> (r: Self) {
        proof {
            lemma2_to64();
            if by < 8 {
                let b = by as u8;
                vstd::bits::lemma_u8_shl_is_mul(1u8, b);
                assert(b < 8 ==> ((self << b) as u16) == mul(self as u16, (1u8 << b) as u16) % 256u16) by (bit_vector);
                assert(mul(self as u16, (1u8 << b) as u16) as int == (self as int) * ((1u8 << b) as int)) by (nonlinear_arith) requires (1u8 << b) <= 128, self <= 255;
            }
        }
        self.checked_shl(by).unwrap_or(0)
    }
    fn trailing_zeros(self) -> (r: u32) {
        self.trailing_zeros()
    }
}

} // verus!
fn main() {}
