// PROTOTYPE (design-phase probe, not framework): simulation proof for InplaceInterpreter::execute_in.
use vstd::prelude::*;
use vstd::string::StringSliceAdditionalSpecFns;
use vstd::arithmetic::power2::*;
use std::marker::PhantomData;
use vstd::std_specs::cmp::PartialEqSpec;
verus! {

// ------------------------------------------------------------------ boundary: CellType (from U1)
pub trait CellType: Copy + Sized + Ord {
    const ZERO: Self; const ONE: Self; const NEG_ONE: Self;
    spec fn v(self) -> nat;
    spec fn bits() -> nat;
    proof fn facts()
        ensures 8 <= Self::bits() <= 64, Self::ZERO.v() == 0, Self::ONE.v() == 1,
                Self::NEG_ONE.v() == pow2(Self::bits()) - 1;
    proof fn v_lt(x: Self) ensures x.v() < pow2(Self::bits());
    proof fn eq_all()
        ensures <Self as PartialEqSpec>::obeys_eq_spec(),
                forall|a: Self, b: Self| #[trigger] a.eq_spec(&b) == (a.v() == b.v());
    fn wrapping_add(self, rhs: Self) -> (r: Self)
        ensures r.v() as int == (self.v() + rhs.v()) as int % (pow2(Self::bits()) as int);
    fn from_u8(val: u8) -> (r: Self) ensures r.v() == val as nat;
    fn into_u8(self) -> (r: u8) ensures r as nat == self.v() % 256;
}

pub enum ErrorKind { LoopNotClosed, LoopNotOpened }
pub struct Error { pub kind: ErrorKind, pub str: String, pub position: usize }

// ------------------------------------------------------------------ boundary: runtime (from U2)
pub enum Call { In, Out(u8) }

pub struct Oracle {
    pub inp: spec_fn(nat) -> Option<u8>,   // result of the k-th input() call (Some(0) at end of input)
    pub out: spec_fn(nat) -> bool,         // does the j-th output() call succeed
}

#[verifier::external_body]
#[verifier::reject_recursive_types(C)]
pub struct Memory<C: CellType> { p: PhantomData<C> }

impl<C: CellType> Memory<C> {
    pub uninterp spec fn view(&self, i: int) -> C;   // total, relative to the current pointer

    #[verifier::external_body]
    pub fn mov(&mut self, offset: isize)
        ensures forall|i: int| #[trigger] final(self).view(i) == old(self).view(i + offset),
    { unimplemented!() }
    #[verifier::external_body]
    pub fn read(&self, offset: isize) -> (r: C)
        ensures r == self.view(offset as int)
    { unimplemented!() }
    #[verifier::external_body]
    pub fn write(&mut self, offset: isize, value: C)
        ensures forall|i: int| #[trigger] final(self).view(i) == (if i == offset as int { value } else { old(self).view(i) }),
    { unimplemented!() }
}

pub uninterp spec fn io_calls(io: int) -> Seq<Call>;
pub uninterp spec fn io_n_in(io: int) -> nat;
pub uninterp spec fn io_n_out(io: int) -> nat;
pub uninterp spec fn io_oracle(io: int) -> Oracle;

#[verifier::reject_recursive_types(C)]
pub struct Context<C: CellType> { pub memory: Memory<C>, pub budget: usize, pub io: Ghost<int> }

impl<C: CellType> Context<C> {
    pub open spec fn calls(&self) -> Seq<Call> { io_calls(self.io@) }
    pub open spec fn n_in(&self) -> nat { io_n_in(self.io@) }
    pub open spec fn n_out(&self) -> nat { io_n_out(self.io@) }
    pub open spec fn oracle(&self) -> Oracle { io_oracle(self.io@) }

    #[verifier::external_body]
    pub fn input(&mut self) -> (r: Option<u8>)
        ensures r == (old(self).oracle().inp)(old(self).n_in()),
                final(self).calls() == old(self).calls().push(Call::In),
                final(self).n_in() == old(self).n_in() + 1, final(self).n_out() == old(self).n_out(),
                final(self).oracle() == old(self).oracle(),
                final(self).memory == old(self).memory, final(self).budget == old(self).budget,
    { unimplemented!() }
    #[verifier::external_body]
    pub fn output(&mut self, value: u8) -> (r: Option<()>)
        ensures r.is_some() == (old(self).oracle().out)(old(self).n_out()),
                final(self).calls() == old(self).calls().push(Call::Out(value)),
                final(self).n_out() == old(self).n_out() + 1, final(self).n_in() == old(self).n_in(),
                final(self).oracle() == old(self).oracle(),
                final(self).memory == old(self).memory, final(self).budget == old(self).budget,
    { unimplemented!() }
}

// ------------------------------------------------------------------ canonical Brainfuck (the oracle)
pub open spec fn depth(code: Seq<u8>, k: int) -> int
    decreases k
{
    if k <= 0 { 0 }
    else if code[k - 1] == 0x5Bu8 { depth(code, k - 1) + 1 }     // '['
    else if code[k - 1] == 0x5Du8 { depth(code, k - 1) - 1 }     // ']'
    else { depth(code, k - 1) }
}

pub open spec fn balanced(code: Seq<u8>) -> bool {
    depth(code, code.len() as int) == 0
    && forall|k: int| 0 <= k <= code.len() ==> #[trigger] depth(code, k) >= 0
}

/// p is a '[' and q its matching ']'.
pub open spec fn matches(code: Seq<u8>, p: int, q: int) -> bool {
    0 <= p < q < code.len() && code[p] == 0x5Bu8 && code[q] == 0x5Du8
    && depth(code, q + 1) == depth(code, p)
    && forall|j: int| p < j < q ==> #[trigger] depth(code, j + 1) > depth(code, p)
}

pub open spec fn close_of(code: Seq<u8>, p: int) -> int { choose|q: int| matches(code, p, q) }
pub open spec fn open_of(code: Seq<u8>, q: int) -> int { choose|p: int| matches(code, p, q) }

pub open spec fn upd(t: spec_fn(int) -> nat, k: int, x: nat) -> spec_fn(int) -> nat {
    |i: int| if i == k { x } else { t(i) }
}

pub struct Cfg {
    pub pc: int,
    pub ptr: int,
    pub tape: spec_fn(int) -> nat,
    pub calls: Seq<Call>,
    pub n_in: nat,
    pub n_out: nat,
    pub stopped: bool,
}

pub open spec fn canon_step(code: Seq<u8>, w: nat, orc: Oracle, c: Cfg) -> Cfg
    recommends 0 <= c.pc < code.len(), !c.stopped
{
    let m = pow2(w);
    let cur = (c.tape)(c.ptr);
    let op = code[c.pc];
    if op == 0x3Cu8 { Cfg { pc: c.pc + 1, ptr: c.ptr - 1, ..c } }
    else if op == 0x3Eu8 { Cfg { pc: c.pc + 1, ptr: c.ptr + 1, ..c } }
    else if op == 0x2Bu8 { Cfg { pc: c.pc + 1, tape: upd(c.tape, c.ptr, (cur + 1) % m), ..c } }
    else if op == 0x2Du8 { Cfg { pc: c.pc + 1, tape: upd(c.tape, c.ptr, ((cur + m - 1) as nat) % m), ..c } }
    else if op == 0x2Eu8 {
        let c2 = Cfg { calls: c.calls.push(Call::Out((cur % 256) as u8)), n_out: c.n_out + 1, ..c };
        if (orc.out)(c.n_out) { Cfg { pc: c.pc + 1, ..c2 } } else { Cfg { stopped: true, ..c2 } }
    }
    else if op == 0x2Cu8 {
        let c2 = Cfg { calls: c.calls.push(Call::In), n_in: c.n_in + 1, ..c };
        match (orc.inp)(c.n_in) {
            Some(b) => Cfg { pc: c.pc + 1, tape: upd(c.tape, c.ptr, b as nat), ..c2 },
            None => Cfg { stopped: true, ..c2 },
        }
    }
    else if op == 0x5Bu8 {
        if cur == 0 { Cfg { pc: close_of(code, c.pc) + 1, ..c } } else { Cfg { pc: c.pc + 1, ..c } }
    }
    else if op == 0x5Du8 {
        if cur != 0 { Cfg { pc: open_of(code, c.pc) + 1, ..c } } else { Cfg { pc: c.pc + 1, ..c } }
    }
    else { Cfg { pc: c.pc + 1, ..c } }
}

pub open spec fn halted(code: Seq<u8>, c: Cfg) -> bool { c.stopped || c.pc >= code.len() }

pub open spec fn canon_run(code: Seq<u8>, w: nat, orc: Oracle, c0: Cfg, n: nat) -> Cfg
    decreases n
{
    if n == 0 { c0 } else {
        let c = canon_run(code, w, orc, c0, (n - 1) as nat);
        if halted(code, c) { c } else { canon_step(code, w, orc, c) }
    }
}


// ------------------------------------------------------------------ proof vocabulary
pub open spec fn stack_ok(code: Seq<u8>, pc: int, stack: Seq<usize>) -> bool {
    stack.len() == depth(code, pc)
    && forall|idx: int| 0 <= idx < stack.len() ==> {
        let p = #[trigger] stack[idx] as int - 1;
        0 <= p < pc && code[p] == 0x5Bu8 && depth(code, p) == idx
        && forall|j: int| p < j < pc ==> #[trigger] depth(code, j + 1) > idx
    }
}

pub open spec fn stack_le(stack: Seq<usize>, n: nat) -> bool {
    forall|idx: int| 0 <= idx < stack.len() ==> #[trigger] stack[idx] <= n
}

pub open spec fn rel<C: CellType>(c: Cfg, cxt: &Context<C>, pc: int) -> bool {
    c.pc == pc && !c.stopped
    && (forall|i: int| (#[trigger] cxt.memory.view(i)).v() == (c.tape)(c.ptr + i))
    && c.calls == cxt.calls() && c.n_in == cxt.n_in() && c.n_out == cxt.n_out()
}

pub open spec fn init_cfg<C: CellType>(cxt: &Context<C>) -> Cfg {
    Cfg { pc: 0, ptr: 0, tape: |i: int| cxt.memory.view(i).v(), calls: cxt.calls(),
          n_in: cxt.n_in(), n_out: cxt.n_out(), stopped: false }
}

pub proof fn lemma_match_unique_q(code: Seq<u8>, p: int, q1: int, q2: int)
    requires matches(code, p, q1), matches(code, p, q2)
    ensures q1 == q2
{
    if q1 < q2 { assert(depth(code, q1 + 1) > depth(code, p)); }
    if q2 < q1 { assert(depth(code, q2 + 1) > depth(code, p)); }
}

pub proof fn lemma_match_unique_p(code: Seq<u8>, p1: int, p2: int, q: int)
    requires matches(code, p1, q), matches(code, p2, q)
    ensures p1 == p2
{
    // wlog p1 < p2: then p2 in (p1, q): depth(p2+1) > depth(p1) = depth(q+1) = depth(p2); and depth(p2) = depth(p2+1) - 1
    if p1 < p2 {
        assert(depth(code, p2 + 1) > depth(code, p1));
        assert(depth(code, p2 + 1) == depth(code, p2) + 1);
        // need depth(p2) > depth(p1) or a contradiction: j = p2-1? depth(p2) is depth((p2-1)+1)
        if p2 - 1 > p1 { assert(depth(code, (p2 - 1) + 1) > depth(code, p1)); }
        else { assert(p2 == p1 + 1); assert(depth(code, p1 + 1) == depth(code, p1) + 1); }
        assert(depth(code, p2) > depth(code, p1));
        assert(false);
    }
    if p2 < p1 {
        assert(depth(code, p1 + 1) == depth(code, p1) + 1);
        if p1 - 1 > p2 { assert(depth(code, (p1 - 1) + 1) > depth(code, p2)); }
        else { assert(p1 == p2 + 1); assert(depth(code, p2 + 1) == depth(code, p2) + 1); }
        assert(depth(code, p1) > depth(code, p2));
        assert(false);
    }
}



pub proof fn lemma_depth_step(code: Seq<u8>, k: int)
    requires 0 <= k < code.len()
    ensures depth(code, k + 1) == depth(code, k)
        + (if code[k] == 0x5Bu8 { 1int } else if code[k] == 0x5Du8 { -1int } else { 0int })
{}

pub proof fn lemma_stack_plain(code: Seq<u8>, k: int, stack: Seq<usize>)
    requires 0 <= k < code.len(), code[k] != 0x5Bu8, code[k] != 0x5Du8, stack_ok(code, k, stack)
    ensures stack_ok(code, k + 1, stack)
{
    lemma_depth_step(code, k);
    assert forall|idx: int| 0 <= idx < stack.len() implies {
        let p = #[trigger] stack[idx] as int - 1;
        0 <= p < k + 1 && code[p] == 0x5Bu8 && depth(code, p) == idx
        && forall|j: int| p < j < k + 1 ==> #[trigger] depth(code, j + 1) > idx
    } by {
        let p = stack[idx] as int - 1;
        assert forall|j: int| p < j < k + 1 implies #[trigger] depth(code, j + 1) > idx by {
            if j == k { } else { }
        }
    }
}

pub proof fn lemma_stack_enter(code: Seq<u8>, p: int, stack: Seq<usize>)
    requires 0 <= p < code.len(), code[p] == 0x5Bu8, stack_ok(code, p, stack), p + 1 <= usize::MAX
    ensures stack_ok(code, p + 1, stack.push((p + 1) as usize))
{
    lemma_depth_step(code, p);
    let s2 = stack.push((p + 1) as usize);
    assert forall|idx: int| 0 <= idx < s2.len() implies {
        let pp = #[trigger] s2[idx] as int - 1;
        0 <= pp < p + 1 && code[pp] == 0x5Bu8 && depth(code, pp) == idx
        && forall|j: int| pp < j < p + 1 ==> #[trigger] depth(code, j + 1) > idx
    } by {
        if idx < stack.len() {
            assert(s2[idx] == stack[idx]);
            let pp = stack[idx] as int - 1;
            assert forall|j: int| pp < j < p + 1 implies #[trigger] depth(code, j + 1) > idx by { }
        } else {
            assert(s2[idx] == (p + 1) as usize);
        }
    }
}

pub proof fn lemma_stack_skip(code: Seq<u8>, p: int, q: int, stack: Seq<usize>)
    requires matches(code, p, q), stack_ok(code, p, stack)
    ensures stack_ok(code, q + 1, stack)
{
    lemma_depth_step(code, p);
    assert forall|idx: int| 0 <= idx < stack.len() implies {
        let pp = #[trigger] stack[idx] as int - 1;
        0 <= pp < q + 1 && code[pp] == 0x5Bu8 && depth(code, pp) == idx
        && forall|j: int| pp < j < q + 1 ==> #[trigger] depth(code, j + 1) > idx
    } by {
        let pp = stack[idx] as int - 1;
        assert forall|j: int| pp < j < q + 1 implies #[trigger] depth(code, j + 1) > idx by {
            if j < p { } else if j == p { } else if j < q { assert(depth(code, j + 1) > depth(code, p)); } else { }
        }
    }
}

pub proof fn lemma_stack_close(code: Seq<u8>, q: int, stack: Seq<usize>)
    requires balanced(code), 0 <= q < code.len(), code[q] == 0x5Du8, stack_ok(code, q, stack)
    ensures
        stack.len() >= 1,
        matches(code, stack.last() as int - 1, q),
        open_of(code, q) == stack.last() as int - 1,
        stack_ok(code, stack.last() as int, stack),
        stack_ok(code, q + 1, stack.drop_last()),
{
    lemma_depth_step(code, q);
    assert(depth(code, q + 1) >= 0);
    let p = stack.last() as int - 1;
    let top = stack.len() - 1;
    assert(stack[top] == stack.last());
    lemma_depth_step(code, p);
    assert(matches(code, p, q));
    lemma_match_unique_p(code, p, open_of(code, q), q);
    // jump back: same stack at pc = p+1
    assert forall|idx: int| 0 <= idx < stack.len() implies {
        let pp = #[trigger] stack[idx] as int - 1;
        0 <= pp < p + 1 && code[pp] == 0x5Bu8 && depth(code, pp) == idx
        && forall|j: int| pp < j < p + 1 ==> #[trigger] depth(code, j + 1) > idx
    } by {
        let pp = stack[idx] as int - 1;
        if idx < top {
            // pp < p because depth(pp) == idx < top == depth(p) and the loop at pp is still open at p
            if pp >= p {
                if pp > p { assert(depth(code, (pp - 1) + 1) > top) by { if pp - 1 > p { } else { } }; }
                assert(false);
            }
        }
    }
    // exit: popped stack at pc = q+1
    let s2 = stack.drop_last();
    assert forall|idx: int| 0 <= idx < s2.len() implies {
        let pp = #[trigger] s2[idx] as int - 1;
        0 <= pp < q + 1 && code[pp] == 0x5Bu8 && depth(code, pp) == idx
        && forall|j: int| pp < j < q + 1 ==> #[trigger] depth(code, j + 1) > idx
    } by {
        assert(s2[idx] == stack[idx]);
    }
}

#[verifier::reject_recursive_types(C)]
pub struct InplaceInterpreter<'code, C: CellType> {
    code: &'code str,
    _phantom: PhantomData<C>,
}

pub open spec fn str_bytes(s: &str) -> Seq<u8> { s.spec_bytes() }

impl<C: CellType> InplaceInterpreter<'_, C> {
    /// Execute the brainfuck program in the given context.
    #[verifier::exec_allows_no_decreases_clause]
    fn execute_in<const LIMITED: bool>(&self, cxt: &mut Context<C>) -> (res: Result<bool, Error>)
        requires
            str_bytes(self.code).len() < 0x7fff_ffff,
        ensures
            final(cxt).oracle() == old(cxt).oracle(),
            balanced(str_bytes(self.code)) ==> res.is_ok() && exists|n: nat| {
                let c = #[trigger] canon_run(str_bytes(self.code), C::bits(), old(cxt).oracle(), init_cfg(old(cxt)), n);
                &&& c.calls == final(cxt).calls()
                &&& (res == Ok::<bool, Error>(true) ==> halted(str_bytes(self.code), c))
                &&& (!LIMITED ==> res == Ok::<bool, Error>(true))
            },
    {
        let ghost code_s = str_bytes(self.code);
        let ghost w = C::bits();
        let ghost orc = cxt.oracle();
        let ghost c0 = init_cfg(cxt);
        let ghost mut cfg = c0;
        let ghost mut n: nat = 0;
        proof { C::facts(); C::eq_all(); }
        let code_bytes = self.code.as_bytes();
        let mut loop_stack = Vec::new();
        let mut pc = 0;
        while pc < code_bytes.len()
            invariant
                code_bytes@ == code_s, code_s.len() < 0x7fff_ffff, code_s == str_bytes(self.code),
                cxt.oracle() == orc, orc == old(cxt).oracle(), c0 == init_cfg(old(cxt)),
                0 <= pc <= code_s.len() + 1,
                stack_le(loop_stack@, code_s.len()),
                balanced(code_s) ==> pc <= code_s.len(),
                balanced(code_s) ==> cfg == canon_run(code_s, w, orc, c0, n),
                balanced(code_s) ==> rel(cfg, cxt, pc as int),
                balanced(code_s) ==> stack_ok(code_s, pc as int, loop_stack@),
                w == C::bits(),
        {
            let ghost pc0 = pc as int;
            let ghost cfg0 = cfg;
            let ghost view0 = cxt.memory;
            proof {
                C::facts(); C::eq_all();
                if balanced(code_s) {
                    cfg = canon_step(code_s, w, orc, cfg0);
                    n = n + 1;
                    assert(!halted(code_s, cfg0));
                    assert(cfg == canon_run(code_s, w, orc, c0, n));
                    lemma_depth_step(code_s, pc0);
                    if code_s[pc0] != 0x5Bu8 && code_s[pc0] != 0x5Du8 {
                        lemma_stack_plain(code_s, pc0, loop_stack@);
                    }
                    if code_s[pc0] == 0x5Du8 {
                        lemma_stack_close(code_s, pc0, loop_stack@);
                    }
                }
            }
            let code = code_bytes[pc];
            pc += 1;
            match code {
                b'<' => {
                    cxt.memory.mov(-1);
                }
                b'>' => {
                    cxt.memory.mov(1);
                }
                b'+' => {
                    cxt.memory.write(0, cxt.memory.read(0).wrapping_add(C::ONE));
                }
                b'-' => {
                    cxt.memory
                        .write(0, cxt.memory.read(0).wrapping_add(C::NEG_ONE));
                }
                b'.' => {
                    if cxt.output(cxt.memory.read(0).into_u8()).is_none() {
                        proof {
                            if balanced(code_s) {
                                assert(cfg.stopped);
                                assert(cfg.calls == cxt.calls());
                                assert(halted(code_s, canon_run(code_s, w, orc, c0, n)));
                                let cc = canon_run(str_bytes(self.code), C::bits(), old(cxt).oracle(), init_cfg(old(cxt)), n);
                                assert(cc == cfg);
                                assert(cc.calls == cxt.calls());
                                assert(halted(str_bytes(self.code), cc));
                            }
                        }
                        return Ok(true);
                    }
                }
                b',' => {
                    if let Some(val) = cxt.input() {
                        cxt.memory.write(0, C::from_u8(val));
                    } else {
                        proof {
                            if balanced(code_s) {
                                assert(cfg.stopped);
                                assert(cfg.calls == cxt.calls());
                                assert(halted(code_s, canon_run(code_s, w, orc, c0, n)));
                                let cc = canon_run(str_bytes(self.code), C::bits(), old(cxt).oracle(), init_cfg(old(cxt)), n);
                                assert(cc == cfg);
                                assert(cc.calls == cxt.calls());
                                assert(halted(str_bytes(self.code), cc));
                            }
                        }
                        return Ok(true);
                    }
                }
                b'[' => {
                    if cxt.memory.read(0) == C::ZERO {
                        let mut cnt = 0;
                        while pc < code_bytes.len()
                            invariant
                                code_bytes@ == code_s, code_s.len() < 0x7fff_ffff,
                                pc0 + 1 <= pc <= code_s.len(),
                                0 <= cnt <= pc - (pc0 + 1),
                                0 <= pc0 < code_s.len(), code_s[pc0] == 0x5Bu8,
                                depth(code_s, pc0 + 1) == depth(code_s, pc0) + 1,
                                cnt == depth(code_s, pc as int) - depth(code_s, pc0 + 1),
                                forall|j: int| pc0 < j < pc ==> #[trigger] depth(code_s, j + 1) > depth(code_s, pc0),
                            ensures
                                pc < code_s.len() ==> (code_s[pc as int] == 0x5Du8 && cnt == 0),
                        {
                            proof {
                                assert(depth(code_s, pc as int + 1) == depth(code_s, pc as int) + (if code_s[pc as int] == 0x5Bu8 { 1int } else if code_s[pc as int] == 0x5Du8 { -1int } else { 0int }));
                            }
                            if code_bytes[pc] == b']' {
                                if cnt == 0 {
                                    break;
                                }
                                cnt -= 1;
                            } else if code_bytes[pc] == b'[' {
                                cnt += 1;
                            }
                            pc += 1;
                        }
                        proof {
                            if balanced(code_s) {
                                if pc < code_s.len() {
                                    assert(matches(code_s, pc0, pc as int));
                                    lemma_match_unique_q(code_s, pc0, pc as int, close_of(code_s, pc0));
                                    lemma_stack_skip(code_s, pc0, pc as int, loop_stack@);
                                } else {
                                    // no match up to the end contradicts balance
                                    if pc0 + 1 < code_s.len() {
                                        assert(depth(code_s, (code_s.len() - 1) + 1) > depth(code_s, pc0));
                                    }
                                    assert(depth(code_s, pc0) >= 0);
                                    assert(false);
                                }
                            }
                        }
                        pc += 1;
                    } else {
                        proof { if balanced(code_s) { lemma_stack_enter(code_s, pc0, loop_stack@); } }
                        loop_stack.push(pc);
                    }
                }
                b']' => {
                    if LIMITED {
                        if cxt.budget == 0 {
                            return Ok(false);
                        }
                        cxt.budget -= 1;
                    }
                    let target = loop_stack.pop().ok_or_else(|| Error {
                        kind: ErrorKind::LoopNotOpened,
                        str: self.code.to_owned(),
                        position: pc - 1,
                    })?;
                    if cxt.memory.read(0) != C::ZERO {
                        pc = target;
                        loop_stack.push(pc);
                    } else {
                    }
                }
                _ => { /* ignore comments */ 
                }
            }
        }
        Ok(true)
    }
}

} // verus!
fn main() {}
