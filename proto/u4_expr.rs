// PROTOTYPE (design-phase probe, not framework): Expr::{val,var,add,evaluate,constant,...} against eval().
use vstd::prelude::*;
use vstd::arithmetic::power2::*;
use vstd::arithmetic::div_mod::*;
use vstd::arithmetic::mul::*;
use vstd::std_specs::cmp::PartialEqSpec;
use std::ops::Deref;
use std::cmp::Ordering;
verus! {

// ---- boundary: CellType ring contracts (proved in U1)
pub trait CellType: Copy + Sized + Ord {
    const ZERO: Self; const ONE: Self; const NEG_ONE: Self;
    spec fn v(self) -> nat;
    spec fn bits() -> nat;
    proof fn facts()
        ensures 8 <= Self::bits() <= 64, Self::ZERO.v() == 0, Self::ONE.v() == 1;
    proof fn v_lt(x: Self) ensures x.v() < pow2(Self::bits());
    proof fn eq_all()
        ensures <Self as PartialEqSpec>::obeys_eq_spec(),
                forall|a: Self, b: Self| #[trigger] a.eq_spec(&b) == (a.v() == b.v());
    fn wrapping_add(self, rhs: Self) -> (r: Self)
        ensures r.v() as int == (self.v() + rhs.v()) as int % (pow2(Self::bits()) as int);
    fn wrapping_mul(self, rhs: Self) -> (r: Self)
        ensures r.v() as int == (self.v() * rhs.v()) as int % (pow2(Self::bits()) as int);
}

// ---- boundary: SmallVec stands for a Vec (refinement is C18 / U3). Methods below are Verus-checked.
pub struct SmallVec<T, const N: usize> { v: Vec<T> }
impl<T, const N: usize> View for SmallVec<T, N> {
    type V = Seq<T>;
    closed spec fn view(&self) -> Seq<T> { self.v@ }
}
impl<T, const N: usize> SmallVec<T, N> {
    pub fn new() -> (r: Self) ensures r@ == Seq::<T>::empty() { SmallVec { v: Vec::new() } }
    pub fn with(elem: T) -> (r: Self) ensures r@ == seq![elem] { let mut v = Vec::new(); v.push(elem); SmallVec { v } }
    pub fn push(&mut self, e: T) ensures final(self)@ == old(self)@.push(e) { self.v.push(e) }
}
impl<T: Clone, const N: usize> Clone for SmallVec<T, N> {
    fn clone(&self) -> (r: Self)
        ensures r@.len() == self@.len(), forall|i: int| 0 <= i < self@.len() ==> cloned::<T>(#[trigger] self@[i], r@[i])
    {
        SmallVec { v: self.v.clone() }
    }
}
impl<T: Ord, const N: usize> SmallVec<T, N> {
    pub fn cmp(&self, other: &Self) -> (r: Ordering)
        ensures r == Ordering::Equal ==> self@ == other@
    { self.cmp_ext(other) }
    #[verifier::external_body]
    fn cmp_ext(&self, other: &Self) -> (r: Ordering)
        ensures r == Ordering::Equal ==> self@ == other@
    { self.v.as_slice().cmp(other.v.as_slice()) }
}
impl<T, const N: usize> Deref for SmallVec<T, N> {
    type Target = [T];
    fn deref(&self) -> (r: &[T]) ensures r@ == self@ { self.v.as_slice() }
}

#[verifier::reject_recursive_types(C)]
pub struct ExprPart<C: CellType> {
    pub coef: C,
    pub vars: SmallVec<isize, 1>,
}

impl<C: CellType> Clone for ExprPart<C> {
    // expansion of #[derive(Clone)]
    fn clone(&self) -> (r: Self)
        ensures r.coef == self.coef, r.vars@ == self.vars@
    {
        let vars = self.vars.clone();
        proof { assert(vars@ =~= self.vars@); }
        ExprPart { coef: self.coef, vars }
    }
}

#[verifier::reject_recursive_types(C)]
pub struct Expr<C: CellType> {
    pub parts: SmallVec<ExprPart<C>, 2>,
}

// ---- spec: value of an expression under an assignment
pub open spec fn prod_vars(vars: Seq<isize>, rho: spec_fn(isize) -> nat) -> nat
    decreases vars.len()
{
    if vars.len() == 0 { 1 } else { prod_vars(vars.drop_last(), rho) * rho(vars.last()) }
}

pub open spec fn pval<C: CellType>(p: ExprPart<C>, rho: spec_fn(isize) -> nat) -> nat {
    p.coef.v() * prod_vars(p.vars@, rho)
}

pub open spec fn sum_parts<C: CellType>(ps: Seq<ExprPart<C>>, rho: spec_fn(isize) -> nat) -> nat
    decreases ps.len()
{
    if ps.len() == 0 { 0 } else { sum_parts(ps.drop_last(), rho) + pval(ps.last(), rho) }
}

pub open spec fn eval<C: CellType>(e: &Expr<C>, rho: spec_fn(isize) -> nat) -> int {
    (sum_parts(e.parts@, rho) as int) % (pow2(C::bits()) as int)
}

proof fn lemma_sum_push<C: CellType>(ps: Seq<ExprPart<C>>, p: ExprPart<C>, rho: spec_fn(isize) -> nat)
    ensures sum_parts(ps.push(p), rho) == sum_parts(ps, rho) + pval(p, rho)
{
    assert(ps.push(p).drop_last() =~= ps);
    assert(ps.push(p).last() == p);
}

proof fn lemma_sum_empty<C: CellType>(rho: spec_fn(isize) -> nat)
    ensures sum_parts(Seq::<ExprPart<C>>::empty(), rho) == 0
{}

proof fn lemma_prod_push(vs: Seq<isize>, x: isize, rho: spec_fn(isize) -> nat)
    ensures prod_vars(vs.push(x), rho) == prod_vars(vs, rho) * rho(x)
{
    assert(vs.push(x).drop_last() =~= vs);
    assert(vs.push(x).last() == x);
}

impl<C: CellType> Expr<C> {
    /// Return the expression representing the constant value given by `coef`.
    pub fn val(coef: C) -> (r: Self)
        ensures forall|rho: spec_fn(isize) -> nat| #[trigger] eval(&r, rho) == coef.v()
    {
        proof { C::eq_all(); C::facts(); C::v_lt(coef); lemma_pow2_pos(C::bits()); }
        if coef == C::ZERO {
            let r = Expr {
                parts: SmallVec::new(),
            };
            proof {
                assert forall|rho: spec_fn(isize) -> nat| #[trigger] eval(&r, rho) == coef.v() by {
                    lemma_small_mod(0, pow2(C::bits()));
                }
            }
            r
        } else {
            let r = Expr {
                parts: SmallVec::with(ExprPart {
                    coef,
                    vars: SmallVec::new(),
                }),
            };
            proof {
                assert forall|rho: spec_fn(isize) -> nat| #[trigger] eval(&r, rho) == coef.v() by {
                    let p = r.parts@[0];
                    assert(r.parts@ =~= Seq::<ExprPart<C>>::empty().push(p));
                    lemma_sum_push(Seq::<ExprPart<C>>::empty(), p, rho);
                    lemma_sum_empty::<C>(rho);
                    assert(p.vars@ =~= Seq::<isize>::empty());
                    assert(prod_vars(p.vars@, rho) == 1);
                    assert(sum_parts(r.parts@, rho) == coef.v() * 1);
                    lemma_small_mod(coef.v(), pow2(C::bits()));
                }
            }
            r
        }
    }
    /// Evaluate the expression by taking getting variable values from the
    /// provided function.
    pub fn evaluate<F: Fn(isize) -> C>(&self, func: F) -> (r: C)
        requires forall|x: isize| func.requires((x,)),
                 forall|x: isize, y1: C, y2: C| func.ensures((x,), y1) && func.ensures((x,), y2) ==> y1 == y2,
        ensures forall|rho: spec_fn(isize) -> nat|
                    (forall|x: isize, y: C| #[trigger] func.ensures((x,), y) ==> y.v() == rho(x))
                    ==> r.v() == #[trigger] eval(self, rho),
    {
        let mut val = C::ZERO;
        proof { C::facts(); lemma_pow2_pos(C::bits()); lemma_small_mod(0, pow2(C::bits())); }
        for part in it: self.parts.iter()
            invariant
                forall|x: isize| func.requires((x,)),
                forall|rho: spec_fn(isize) -> nat|
                    (forall|x: isize, y: C| #[trigger] func.ensures((x,), y) ==> y.v() == rho(x))
                    ==> val.v() as int == (#[trigger] sum_parts(self.parts@.take(it.index@ as int), rho)) as int % (pow2(C::bits()) as int),
        {
            let ghost k = it.index@ as int;
            let mut part_val = part.coef;
            proof {
                C::v_lt(part_val); lemma_pow2_pos(C::bits()); lemma_small_mod(part_val.v(), pow2(C::bits()));
                assert(part.vars@.take(0) =~= Seq::<isize>::empty());
                assert forall|rho: spec_fn(isize) -> nat| #[trigger] prod_vars(part.vars@.take(0), rho) == 1 by {}
                assert(part.coef.v() * 1 == part.coef.v());
            }
            for var_ref in it2: part.vars.iter()
                invariant
                    forall|x: isize| func.requires((x,)),
                    forall|rho: spec_fn(isize) -> nat|
                        (forall|x: isize, y: C| #[trigger] func.ensures((x,), y) ==> y.v() == rho(x))
                        ==> part_val.v() as int == (part.coef.v() * #[trigger] prod_vars(part.vars@.take(it2.index@ as int), rho)) as int % (pow2(C::bits()) as int),
            {
                let ghost j = it2.index@ as int;
                let ghost pv0 = part_val;
                let var = *var_ref;
                part_val = part_val.wrapping_mul(func(var));
                proof {
                    let m = pow2(C::bits()) as int;
                    lemma_pow2_pos(C::bits());
                    assert forall|rho: spec_fn(isize) -> nat|
                        (forall|x: isize, y: C| #[trigger] func.ensures((x,), y) ==> y.v() == rho(x))
                        implies part_val.v() as int == (part.coef.v() * #[trigger] prod_vars(part.vars@.take(j + 1), rho)) as int % m by {
                        let vs = part.vars@;
                        assert(vs.take(j + 1) =~= vs.take(j).push(vs[j]));
                        lemma_prod_push(vs.take(j), vs[j], rho);
                        let a = (part.coef.v() * prod_vars(vs.take(j), rho)) as int;
                        let fv = rho(var) as int;
                        assert(pv0.v() as int == a % m);
                        assert(part_val.v() as int == (pv0.v() as int * fv) % m);
                        lemma_mul_mod_noop_left(a, fv, m);
                        assert(a * fv == (part.coef.v() * (prod_vars(vs.take(j), rho) * rho(vs[j]))) as int) by (nonlinear_arith)
                            requires a == (part.coef.v() * prod_vars(vs.take(j), rho)) as int, fv == rho(vs[j]) as int;
                    }
                }
            }
            let ghost v0 = val;
            val = val.wrapping_add(part_val);
            proof {
                let m = pow2(C::bits()) as int;
                lemma_pow2_pos(C::bits());
                assert forall|rho: spec_fn(isize) -> nat|
                    (forall|x: isize, y: C| #[trigger] func.ensures((x,), y) ==> y.v() == rho(x))
                    implies val.v() as int == (#[trigger] sum_parts(self.parts@.take(k + 1), rho)) as int % m by {
                    let ps = self.parts@;
                    assert(ps.take(k + 1) =~= ps.take(k).push(ps[k]));
                    lemma_sum_push(ps.take(k), ps[k], rho);
                    assert(part.vars@.take(part.vars@.len() as int) =~= part.vars@);
                    let a = sum_parts(ps.take(k), rho) as int;
                    let b = pval(ps[k], rho) as int;
                    assert(v0.v() as int == a % m);
                    assert(part_val.v() as int == b % m);
                    lemma_add_mod_noop(a, b, m);
                }
            }
        }
        proof {
            assert(self.parts@.take(self.parts@.len() as int) =~= self.parts@);
        }
        val
    }
    /// Add two expressions and return the resulting expressions.
    pub fn add(&self, other: &Self) -> (r: Self)
        ensures forall|rho: spec_fn(isize) -> nat|
            #[trigger] eval(&r, rho) == (eval(self, rho) + eval(other, rho)) % (pow2(C::bits()) as int),
    {
        let (mut i, mut j) = (0, 0);
        let mut parts = SmallVec::new();
        let ghost m = pow2(C::bits()) as int;
        proof {
            lemma_pow2_pos(C::bits()); C::eq_all(); C::facts();
            assert(self.parts@.skip(0) =~= self.parts@);
            assert(other.parts@.skip(0) =~= other.parts@);
            assert forall|rho: spec_fn(isize) -> nat| #[trigger] sum_parts(parts@, rho) == 0 by { lemma_sum_empty::<C>(rho); }
        }
        while i < self.parts.len() && j < other.parts.len()
            invariant
                m == pow2(C::bits()) as int, m > 0,
                0 <= i <= self.parts@.len(), 0 <= j <= other.parts@.len(),
                forall|rho: spec_fn(isize) -> nat|
                    (#[trigger] sum_parts(parts@, rho) + sum_parts(self.parts@.skip(i as int), rho) + sum_parts(other.parts@.skip(j as int), rho)) as int % m
                    == (sum_parts(self.parts@, rho) + sum_parts(other.parts@, rho)) as int % m,
            decreases self.parts@.len() - i + other.parts@.len() - j
        {
            let ghost parts0 = parts@;
            let ghost i0 = i as int; let ghost j0 = j as int;
            proof {
                assert forall|rho: spec_fn(isize) -> nat| true implies
                    #[trigger] sum_parts(self.parts@.skip(i0), rho) == pval(self.parts@[i0], rho) + sum_parts(self.parts@.skip(i0 + 1), rho)
                    && sum_parts(other.parts@.skip(j0), rho) == pval(other.parts@[j0], rho) + sum_parts(other.parts@.skip(j0 + 1), rho) by {
                    lemma_sum_skip(self.parts@, i0, rho);
                    lemma_sum_skip(other.parts@, j0, rho);
                }
            }
            match self.parts[i].vars.cmp(&other.parts[j].vars) {
                Ordering::Less => {
                    parts.push(self.parts[i].clone());
                    i += 1;
                    proof {
                        assert forall|rho: spec_fn(isize) -> nat| #[trigger] sum_parts(parts@, rho) == sum_parts(parts0, rho) + pval(self.parts@[i0], rho) by {
                            lemma_sum_push(parts0, parts@.last(), rho);
                            assert(parts@ =~= parts0.push(parts@.last()));
                        }
                    }
                }
                Ordering::Greater => {
                    parts.push(other.parts[j].clone());
                    j += 1;
                    proof {
                        assert forall|rho: spec_fn(isize) -> nat| #[trigger] sum_parts(parts@, rho) == sum_parts(parts0, rho) + pval(other.parts@[j0], rho) by {
                            lemma_sum_push(parts0, parts@.last(), rho);
                            assert(parts@ =~= parts0.push(parts@.last()));
                        }
                    }
                }
                Ordering::Equal => {
                    let coef = self.parts[i]
                        .coef
                        .wrapping_add(other.parts[j].coef);
                    if coef != C::ZERO {
                        parts.push(ExprPart {
                            coef,
                            vars: self.parts[i].vars.clone(),
                        });
                    }
                    i += 1;
                    j += 1;
                    proof {
                        let pa = self.parts@[i0]; let pb = other.parts@[j0];
                        assert(pa.vars@ == pb.vars@);
                        C::eq_all(); C::facts();
                        assert(coef.v() as int == (pa.coef.v() + pb.coef.v()) as int % m);
                        if coef.v() != 0 {
                            assert(parts@ =~= parts0.push(parts@.last()));
                            assert(parts@.last().coef == coef && parts@.last().vars@ =~= pa.vars@);
                        } else {
                            assert(parts@ =~= parts0);
                        }
                        assert forall|rho: spec_fn(isize) -> nat| (#[trigger] sum_parts(parts@, rho)) as int % m == (sum_parts(parts0, rho) + pval(pa, rho) + pval(pb, rho)) as int % m by {
                            let pr = prod_vars(pa.vars@, rho) as int;
                            let ca = pa.coef.v() as int; let cb = pb.coef.v() as int;
                            assert(pval(pa, rho) + pval(pb, rho) == (ca + cb) * pr) by (nonlinear_arith)
                                requires pval(pa, rho) == ca * pr, pval(pb, rho) == cb * pr;
                            lemma_mul_mod_noop_left(ca + cb, pr, m);
                            if coef.v() != 0 {
                                assert(parts@ =~= parts0.push(parts@.last()));
                                lemma_sum_push(parts0, parts@.last(), rho);
                                assert(parts@.last().vars@ =~= pa.vars@);
                                assert(pval(parts@.last(), rho) == coef.v() * pr);
                                lemma_add_mod_noop_right(sum_parts(parts0, rho) as int, (ca + cb) * pr, m);
                                lemma_add_mod_noop_right(sum_parts(parts0, rho) as int, (coef.v() as int) * pr, m);
                            } else {
                                assert(parts@ =~= parts0);
                                assert(((ca + cb) % m) * pr == 0);
                                lemma_add_mod_noop_right(sum_parts(parts0, rho) as int, (ca + cb) * pr, m);
                                lemma_small_mod(0, m as nat);
                                lemma_add_mod_noop_right(sum_parts(parts0, rho) as int, 0, m);
                            }
                        }
                        assert forall|rho: spec_fn(isize) -> nat|
                            (#[trigger] sum_parts(parts@, rho) + sum_parts(self.parts@.skip(i as int), rho) + sum_parts(other.parts@.skip(j as int), rho)) as int % m
                            == (sum_parts(self.parts@, rho) + sum_parts(other.parts@, rho)) as int % m by {
                            let rest = (sum_parts(self.parts@.skip(i as int), rho) + sum_parts(other.parts@.skip(j as int), rho)) as int;
                            lemma_add_cong(sum_parts(parts@, rho) as int, (sum_parts(parts0, rho) + pval(pa, rho) + pval(pb, rho)) as int, rest, m);
                        }
                    }
                }
            }
        }
        while i < self.parts.len()
            invariant
                m == pow2(C::bits()) as int, m > 0,
                0 <= i <= self.parts@.len(), 0 <= j <= other.parts@.len(),
                forall|rho: spec_fn(isize) -> nat|
                    (#[trigger] sum_parts(parts@, rho) + sum_parts(self.parts@.skip(i as int), rho) + sum_parts(other.parts@.skip(j as int), rho)) as int % m
                    == (sum_parts(self.parts@, rho) + sum_parts(other.parts@, rho)) as int % m,
            decreases self.parts@.len() - i
        {
            let ghost parts0 = parts@; let ghost i0 = i as int;
            parts.push(self.parts[i].clone());
            i += 1;
            proof {
                assert forall|rho: spec_fn(isize) -> nat|
                    #[trigger] sum_parts(parts@, rho) == sum_parts(parts0, rho) + pval(self.parts@[i0], rho)
                    && sum_parts(self.parts@.skip(i0), rho) == pval(self.parts@[i0], rho) + sum_parts(self.parts@.skip(i0 + 1), rho) by {
                    lemma_sum_push(parts0, parts@.last(), rho);
                    assert(parts@ =~= parts0.push(parts@.last()));
                    lemma_sum_skip(self.parts@, i0, rho);
                }
            }
        }
        while j < other.parts.len()
            invariant
                m == pow2(C::bits()) as int, m > 0,
                0 <= i <= self.parts@.len(), 0 <= j <= other.parts@.len(),
                forall|rho: spec_fn(isize) -> nat|
                    (#[trigger] sum_parts(parts@, rho) + sum_parts(self.parts@.skip(i as int), rho) + sum_parts(other.parts@.skip(j as int), rho)) as int % m
                    == (sum_parts(self.parts@, rho) + sum_parts(other.parts@, rho)) as int % m,
            decreases other.parts@.len() - j
        {
            let ghost parts0 = parts@; let ghost j0 = j as int;
            parts.push(other.parts[j].clone());
            j += 1;
            proof {
                assert forall|rho: spec_fn(isize) -> nat|
                    #[trigger] sum_parts(parts@, rho) == sum_parts(parts0, rho) + pval(other.parts@[j0], rho)
                    && sum_parts(other.parts@.skip(j0), rho) == pval(other.parts@[j0], rho) + sum_parts(other.parts@.skip(j0 + 1), rho) by {
                    lemma_sum_push(parts0, parts@.last(), rho);
                    assert(parts@ =~= parts0.push(parts@.last()));
                    lemma_sum_skip(other.parts@, j0, rho);
                }
            }
        }
        let r = Expr { parts };
        proof {
            assert(self.parts@.skip(self.parts@.len() as int) =~= Seq::<ExprPart<C>>::empty());
            assert(other.parts@.skip(other.parts@.len() as int) =~= Seq::<ExprPart<C>>::empty());
            assert forall|rho: spec_fn(isize) -> nat|
                #[trigger] eval(&r, rho) == (eval(self, rho) + eval(other, rho)) % m by {
                lemma_sum_empty::<C>(rho);
                lemma_add_mod_noop(sum_parts(self.parts@, rho) as int, sum_parts(other.parts@, rho) as int, m);
            }
        }
        r
    }
}

proof fn lemma_add_cong(a: int, a2: int, b: int, m: int)
    requires m > 0, a % m == a2 % m
    ensures (a + b) % m == (a2 + b) % m
{
    lemma_add_mod_noop(a, b, m);
    lemma_add_mod_noop(a2, b, m);
}

proof fn lemma_sum_skip<C: CellType>(s: Seq<ExprPart<C>>, i: int, rho: spec_fn(isize) -> nat)
    requires 0 <= i < s.len()
    ensures sum_parts(s.skip(i), rho) == pval(s[i], rho) + sum_parts(s.skip(i + 1), rho)
    decreases s.len() - i
{
    let t = s.skip(i);
    if t.len() == 1 {
        assert(t.drop_last() =~= Seq::<ExprPart<C>>::empty());
        assert(s.skip(i + 1) =~= Seq::<ExprPart<C>>::empty());
        assert(t.last() == s[i]);
    } else {
        // peel the last element on both sides
        let u = s.drop_last();
        assert(t.drop_last() =~= u.skip(i));
        assert(s.skip(i + 1).drop_last() =~= u.skip(i + 1));
        assert(t.last() == s.last());
        assert(s.skip(i + 1).last() == s.last());
        lemma_sum_skip(u, i, rho);
        assert(u[i] == s[i]);
    }
}

} // verus!
fn main() {}
