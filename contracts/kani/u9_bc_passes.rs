// U9 `bc_passes` — Kani contracts for the bytecode-generator passes of src/bc.rs that do not use
// hash collections: `parameter_reordering`, `strip_noops`, `record_branch_targets`, `count_temps`.
// (emit_block, dead_store_elim, allocate_temps, zeroing_move_detection use std HashMap / BTreeSet /
// BinaryHeap: a two-instruction harness for zeroing_move_detection did not finish in 400 s.)
// The `CodeGen` value is built with only the fields the pass under contract touches initialised
// (constructing the real HashMap fields would call RandomState::new, i.e. the OS random source).
#![allow(dead_code, unused_unsafe)]
use super::*;
use std::mem::MaybeUninit;
use std::ptr::addr_of_mut;

const W: isize = 2; // tape operands in -W..=W
const T: usize = 4; // temporaries 0..T

fn any_loc(allow_imm: bool) -> Loc<u8> {
    let k: u8 = kani::any();
    let off: isize = kani::any();
    kani::assume(-W <= off && off <= W);
    let t: usize = kani::any();
    kani::assume(t < T);
    match k % 3 {
        0 => Loc::Mem(off),
        1 => Loc::Tmp(t),
        _ => {
            if allow_imm {
                Loc::Imm(kani::any())
            } else {
                Loc::Mem(off)
            }
        }
    }
}

/// Bytecode step semantics on (window cells, temporaries) -- the same `bc_step` as unit u5.
#[derive(Clone, Copy)]
struct St {
    cells: [u8; 5],
    temps: [u8; T],
}
fn rd(st: &mut St, l: Loc<u8>) -> u8 {
    match l {
        Loc::Mem(o) => st.cells[(o + W) as usize],
        Loc::MemZero(o) => {
            let v = st.cells[(o + W) as usize];
            st.cells[(o + W) as usize] = 0;
            v
        }
        Loc::Tmp(t) => st.temps[t],
        Loc::Imm(v) => v,
    }
}
fn wr(st: &mut St, l: Loc<u8>, v: u8) {
    match l {
        Loc::Mem(o) | Loc::MemZero(o) => st.cells[(o + W) as usize] = v,
        Loc::Tmp(t) => st.temps[t] = v,
        Loc::Imm(_) => {}
    }
}
fn step(st: &mut St, i: Instr<u8>) {
    match i {
        Instr::Add(d, a, b) => {
            let x = rd(st, a);
            let y = rd(st, b);
            wr(st, d, x.wrapping_add(y));
        }
        Instr::Sub(d, a, b) => {
            let x = rd(st, a);
            let y = rd(st, b);
            wr(st, d, x.wrapping_sub(y));
        }
        Instr::Mul(d, a, b) => {
            let x = rd(st, a);
            let y = rd(st, b);
            wr(st, d, x.wrapping_mul(y));
        }
        Instr::Copy(d, a) => {
            let x = rd(st, a);
            wr(st, d, x);
        }
        _ => {}
    }
}
fn same(a: &St, b: &St) -> bool {
    a.cells[0] == b.cells[0]
        && a.cells[1] == b.cells[1]
        && a.cells[2] == b.cells[2]
        && a.cells[3] == b.cells[3]
        && a.cells[4] == b.cells[4]
        && a.temps[0] == b.temps[0]
        && a.temps[1] == b.temps[1]
        && a.temps[2] == b.temps[2]
        && a.temps[3] == b.temps[3]
}

/// `parameter_reordering` preserves the step semantics of EVERY Add / Sub / Mul / Copy instruction
/// (operands: memory, temporary, immediate -- MemZero does not exist yet at this point of
/// `translate`), and establishes its normal form: an immediate is never the first source of a
/// commutative instruction unless both are immediates (folded to a Copy), `Sub x, imm` becomes Add.
#[kani::proof]
#[kani::unwind(3)]
fn u9_parameter_reordering() {
    let d = any_loc(false);
    let (a, b) = (any_loc(true), any_loc(true));
    let which: u8 = kani::any();
    let i = match which % 4 {
        0 => Instr::Add(d, a, b),
        1 => Instr::Sub(d, a, b),
        2 => Instr::Mul(d, a, b),
        _ => Instr::Copy(d, a),
    };
    let mut v = Vec::with_capacity(1);
    v.push(i);
    let mut raw = MaybeUninit::<CodeGen<u8>>::uninit();
    unsafe {
        addr_of_mut!((*raw.as_mut_ptr()).insts).write(v);
    }
    let cg = unsafe { &mut *raw.as_mut_ptr() };
    cg.parameter_reordering();
    assert!(cg.insts.len() == 1);
    let j = cg.insts[0];
    let st0 = St { cells: kani::any(), temps: kani::any() };
    let mut s1 = st0;
    let mut s2 = st0;
    step(&mut s1, i);
    step(&mut s2, j);
    assert!(same(&s1, &s2));
    // normal form
    match j {
        Instr::Add(_, x, _) | Instr::Mul(_, x, _) => assert!(!matches!(x, Loc::Imm(_))),
        Instr::Sub(_, _, y) => assert!(!matches!(y, Loc::Imm(_))),
        _ => {}
    }
    kani::cover!(matches!(i, Instr::Sub(_, _, Loc::Imm(_))) && matches!(j, Instr::Add(..)), "Sub imm rewritten to Add");
    kani::cover!(matches!(i, Instr::Mul(_, Loc::Imm(_), Loc::Imm(_))) && matches!(j, Instr::Copy(..)), "constant folded");
}

fn any_instr_for_strip() -> Instr<u8> {
    let k: u8 = kani::any();
    let c: isize = kani::any();
    kani::assume(-W <= c && c <= W);
    match k % 4 {
        0 => Instr::Noop,
        1 => Instr::Out(c),
        2 => Instr::BrZ(c, kani::any()),
        _ => Instr::BrNZ(c, kani::any()),
    }
}

/// `strip_noops` on every program of N instructions drawn from {Noop, Out, BrZ, BrNZ} whose
/// branches land inside 0..=N: the non-noop instructions survive in order, `live` is filtered in
/// parallel, and every branch lands on the image of its old target (the first surviving
/// instruction at or after it).
const N: usize = VERIF_PARAM_N;
#[kani::proof]
#[kani::unwind(VERIF_PARAM_UNWIND)]
fn u9_strip_noops() {
    let mut v: Vec<Instr<u8>> = Vec::with_capacity(N);
    let mut live: Vec<u16> = Vec::with_capacity(N);
    let mut old = [Instr::Noop; N];
    let mut oldlive = [0u16; N];
    let mut k = 0;
    while k < N {
        let ins = any_instr_for_strip();
        if let Instr::BrZ(_, off) | Instr::BrNZ(_, off) = ins {
            // generator-side precondition: branch targets are instruction boundaries in 0..=N
            kani::assume(-(N as isize) <= off && off <= N as isize);
            kani::assume(0 <= k as isize + off && k as isize + off <= N as isize);
        }
        let l: u16 = kani::any();
        old[k] = ins;
        oldlive[k] = l;
        v.push(ins);
        live.push(l);
        k += 1;
    }
    let mut raw = MaybeUninit::<CodeGen<u8>>::uninit();
    unsafe {
        addr_of_mut!((*raw.as_mut_ptr()).insts).write(v);
        addr_of_mut!((*raw.as_mut_ptr()).live).write(live);
    }
    let cg = unsafe { &mut *raw.as_mut_ptr() };
    cg.strip_noops();
    // new index of old position p = number of non-noops before p
    let mut newidx = [0usize; N + 1];
    let mut cnt = 0;
    let mut p = 0;
    while p < N {
        newidx[p] = cnt;
        if !matches!(old[p], Instr::Noop) {
            cnt += 1;
        }
        p += 1;
    }
    newidx[N] = cnt;
    assert!(cg.insts.len() == cnt && cg.live.len() == cnt);
    let mut q = 0;
    while q < N {
        if !matches!(old[q], Instr::Noop) {
            let ni = newidx[q];
            assert!(cg.live[ni] == oldlive[q]);
            match (old[q], cg.insts[ni]) {
                (Instr::Out(a), Instr::Out(b)) => assert!(a == b),
                (Instr::BrZ(c0, off0), Instr::BrZ(c1, off1)) | (Instr::BrNZ(c0, off0), Instr::BrNZ(c1, off1)) => {
                    assert!(c0 == c1);
                    let target = (q as isize + off0) as usize;
                    assert!(ni as isize + off1 == newidx[target] as isize);
                }
                _ => assert!(false),
            }
        }
        q += 1;
    }
}

/// `record_branch_targets` marks exactly the targets; `count_temps` is one more than the largest
/// temporary index mentioned (0 if none).
#[kani::proof]
#[kani::unwind(7)]
fn u9_targets_and_count_temps() {
    let (d, a, b) = (any_loc(false), any_loc(true), any_loc(true));
    let c: isize = kani::any();
    let off: isize = kani::any();
    kani::assume(-1 <= off && off <= 2);
    let mut v: Vec<Instr<u8>> = Vec::with_capacity(3);
    // every arm of the real `match` is reachable: the arithmetic kind and the branch kind are
    // symbolic, and the copy has operands of its own (its temporaries may be the largest ones)
    let (d2, b2) = (any_loc(false), any_loc(true));
    let kind: u8 = kani::any();
    kani::assume(kind < 3);
    let brz: bool = kani::any();
    v.push(match kind {
        0 => Instr::Add(d, a, b),
        1 => Instr::Sub(d, a, b),
        _ => Instr::Mul(d, a, b),
    });
    v.push(if brz { Instr::BrZ(c, off) } else { Instr::BrNZ(c, off) });
    v.push(Instr::Copy(d2, b2));
    let mut raw = MaybeUninit::<CodeGen<u8>>::uninit();
    unsafe {
        addr_of_mut!((*raw.as_mut_ptr()).insts).write(v);
        addr_of_mut!((*raw.as_mut_ptr()).is_target).write(Vec::new());
    }
    let cg = unsafe { &mut *raw.as_mut_ptr() };
    cg.record_branch_targets();
    assert!(cg.is_target.len() == 4);
    let t: usize = kani::any();
    kani::assume(t < 4);
    assert!(cg.is_target[t] == (t as isize == 1 + off));
    let n = cg.count_temps();
    let mut want = 0;
    for l in [d, a, b, d2, b2] {
        if let Loc::Tmp(x) = l {
            if x + 1 > want {
                want = x + 1;
            }
        }
    }
    assert!(n == want);
}
