"""U6b — the runtime shims called by JIT-generated code (C08, C06)."""
import os
import re

UNIT = "u6b_jit_shims"
MOD = "exec::basejit::verif_u6b::"
KANI_FLAGS = []
TRUSTED = ["Box<dyn Read/Write> oracles answering Ok(0)/Ok(1); Err => None is Context::input's contract (unit u2)"]
HERE = os.path.dirname(os.path.abspath(__file__))

# how the generated code observes an input request, for the two signatures the shim has had
OBSERVE_VALUE_ONLY = '''fn observe_input(cxt: &mut Context<'static, u8>) -> (u8, bool) {
    // signature: fn(cxt) -> C   -- the value is all the machine code gets: it can never be told to stop
    let v = hpbf_context_input::<u8>(cxt);
    (v, false)
}'''
OBSERVE_FLAG = '''fn observe_input(cxt: &mut Context<'static, u8>) -> (u8, bool) {
    // signature: fn(cxt, dst: *mut C) -> bool   -- value stored through `dst`, `true` = stop
    let mut cell: u8 = 0xAA;
    let stop = hpbf_context_input::<u8>(cxt, &mut cell as *mut u8);
    if stop {
        // nothing may be stored on failure
        assert!(cell == 0xAA);
    }
    (cell, stop)
}'''


def prepare(repo, tier, seed):
    src = open(os.path.join(repo, "src/exec/basejit/mod.rs")).read()
    m = re.search(r"fn hpbf_context_input<C: CellType>\(([^)]*)\)\s*(->\s*[\w<>]+)?", src)
    if not m:
        raise RuntimeError("lost anchor: hpbf_context_input not found in basejit/mod.rs")
    observe = OBSERVE_FLAG if "*mut C" in m.group(1) and "bool" in (m.group(2) or "") else OBSERVE_VALUE_ONLY
    text = open(os.path.join(HERE, "u6b_jit_shims.rs")).read().replace("VERIF_PARAM_OBSERVE_INPUT", observe)
    return [{"src": text, "dest": "src/exec/basejit/verif_u6b.rs", "mod_in": "src/exec/basejit/mod.rs",
             "mod_name": "verif_u6b", "params": {}}]


def harnesses(tier, seed):
    t = 300
    return [
        {"name": MOD + "u6b_input_shim_reports_failure", "function": "basejit::hpbf_context_input",
         "clause": "an absent / failing input source is reported to the generated code as 'stop' (and nothing is stored); end of input yields 0 and a byte yields the byte, with 'continue'",
         "properties": ["C08"], "bounded_by": None, "complete_over": "all reader outcomes, all bytes (loop-free)", "timeout": t},
        {"name": MOD + "u6b_output_shim", "function": "basejit::hpbf_context_output",
         "clause": "returns 'stop' exactly when the sink refuses the byte; emits the low 8 bits of the cell exactly once",
         "properties": ["C08"], "bounded_by": None, "complete_over": "all writer outcomes, all cell values (loop-free)", "timeout": t},
        {"name": MOD + "u6b_extend_shim", "function": "basejit::hpbf_context_extend",
         "clause": "every offset of the requested range is accessible afterwards", "properties": ["C06"],
         "bounded_by": "ranges within [-3, 4) on a fresh tape", "complete_over": "all such ranges", "timeout": t},
    ]


def native_replay(ob, tier, seed):
    """Replay through the PUBLIC API on the real JIT: a program that reads with no input source and
    then prints must print nothing (every other backend stops at the failed read)."""
    import subprocess
    import sys
    sys.path.insert(0, os.path.join(HERE, "..", "..", "tools"))
    from common import Scratch
    if "input_shim" not in ob["harness"]:
        return None
    test = '''use hpbf::{exec::{BaseJitCompiler, Executable, Executor, InplaceInterpreter}, runtime::Context};
#[test]
fn jit_stops_at_failed_input() {
    let code = ",+.";
    let mut out_jit = Vec::new();
    let mut out_ref = Vec::new();
    { let mut c = Context::<u8>::new(None, Some(Box::new(&mut out_jit))); BaseJitCompiler::<u8>::create(code, 0).unwrap().execute(&mut c).unwrap(); }
    { let mut c = Context::<u8>::new(None, Some(Box::new(&mut out_ref))); InplaceInterpreter::<u8>::create(code, 0).unwrap().execute(&mut c).unwrap(); }
    println!("U6BREPLAY jit={:?} inplace={:?}", out_jit, out_ref);
    assert_eq!(out_jit, out_ref);
}
'''
    with Scratch("u6breplay") as sc:
        os.makedirs(os.path.join(sc.repo, "tests"), exist_ok=True)
        open(os.path.join(sc.repo, "tests", "verif_u6b_replay.rs"), "w").write(test)
        env = dict(os.environ, CARGO_NET_OFFLINE="true", CARGO_TARGET_DIR=os.path.join(sc.path, "target_native"))
        p = subprocess.run(["cargo", "test", "--offline", "--test", "verif_u6b_replay", "--", "--nocapture"],
                           cwd=sc.repo, env=env, capture_output=True, text=True, timeout=1500)
        out = p.stdout + p.stderr
        lines = [l for l in out.split("\\n") if "U6BREPLAY" in l or "test result" in l]
        return {"cmd": "cargo test --test verif_u6b_replay (public API, real JIT vs in-place interpreter, program `,+.` with no input source)",
                "reproduced_on_real_code": "FAILED" in out and "U6BREPLAY" in out, "passed_on_real_code": "test result: ok" in out,
                "exit": p.returncode, "output_tail": "\\n".join(lines)[-600:]}
