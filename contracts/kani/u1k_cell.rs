// U1k `cell_arith` Kani twins (property C14): the same contracts as the Verus unit u1_cell, stated
// at concrete widths so that a violation comes with concrete operands.
//
//  * `wrapping_pow / wrapping_inv / wrapping_div` at u8: loops bounded by the width (unwind 9,
//    unwinding assertions on) over ALL operand pairs -- complete at that width.
//  * conversions (`into_u64, into_i64, from_u64, from_u8, into_u8, from_i16, try_into_i16`) and
//    the shift/neg primitives: loop-free over the FULL domain at all four widths -- complete.
#![allow(dead_code)]
use super::CellType;

/// `(a * b) mod 2^BITS` computed independently in u128.
fn mulmod<C: CellType>(a: u64, b: u64) -> u64 {
    let p = (a as u128) * (b as u128);
    if C::BITS == 64 { p as u64 } else { (p % (1u128 << C::BITS)) as u64 }
}

#[kani::proof]
#[kani::unwind(10)]
fn u1k_wrapping_div_u8() {
    let n: u8 = kani::any();
    let d: u8 = kani::any();
    let r = <u8 as CellType>::wrapping_div(n, d);
    // specification: least x with x*d == n (mod 256), None iff no such x
    let y: u8 = kani::any();
    match r {
        Some(x) => {
            assert!(x.wrapping_mul(d) == n);
            if y.wrapping_mul(d) == n {
                assert!(y >= x);
            }
        }
        None => {
            assert!(y.wrapping_mul(d) != n);
        }
    }
}

#[kani::proof]
#[kani::unwind(10)]
fn u1k_wrapping_inv_u8() {
    let a: u8 = kani::any();
    match <u8 as CellType>::wrapping_inv(a) {
        Some(i) => assert!(a % 2 == 1 && i.wrapping_mul(a) == 1),
        None => assert!(a % 2 == 0),
    }
}

#[kani::proof]
#[kani::unwind(10)]
fn u1k_wrapping_pow_u8() {
    let b: u8 = kani::any();
    let e: u8 = kani::any();
    let r = <u8 as CellType>::wrapping_pow(b, e);
    // repeated multiplication, by the recurrence b^e = b^(e-1) * b  (checked as one inductive step
    // against the function itself, plus the base case)
    if e == 0 {
        assert!(r == 1);
    } else {
        let r1 = <u8 as CellType>::wrapping_pow(b, e - 1);
        assert!(r == r1.wrapping_mul(b));
    }
}

fn conv_contract<C: CellType + kani::Arbitrary>() {
    let x: C = kani::any();
    let bits = C::BITS;
    let mask: u64 = if bits == 64 { u64::MAX } else { (1u64 << bits) - 1 };
    // zero extension
    let z = x.into_u64();
    assert!(z <= mask);
    // truncation round-trips
    assert!(C::from_u64(z) == x);
    let any64: u64 = kani::any();
    assert!(C::from_u64(any64).into_u64() == any64 & mask);
    // sign extension
    let s = x.into_i64();
    let sign = (z >> (bits - 1)) & 1 == 1;
    if sign {
        assert!(s < 0 && (s as u64) & mask == z && (s as u64) | mask == u64::MAX);
    } else {
        assert!(s >= 0 && s as u64 == z);
    }
    // bytes
    let b: u8 = kani::any();
    assert!(C::from_u8(b).into_u64() == b as u64);
    assert!(C::from_u8(b).into_u8() == b);
    assert!(x.into_u8() == (z & 0xff) as u8);
    // i16
    let h: i16 = kani::any();
    let c = C::from_i16(h);
    assert!(c.into_u64() == (h as i64 as u64) & mask);
    match x.try_into_i16() {
        Some(v) => {
            assert!(v as i64 == s);
            assert!(C::from_i16(v) == x);
        }
        None => assert!(s < i16::MIN as i64 || s > i16::MAX as i64),
    }
    if bits >= 16 {
        assert!(c.try_into_i16() == Some(h));
    }
}

#[kani::proof]
fn u1k_conv_u8() {
    conv_contract::<u8>();
}
#[kani::proof]
fn u1k_conv_u16() {
    conv_contract::<u16>();
}
#[kani::proof]
fn u1k_conv_u32() {
    conv_contract::<u32>();
}
#[kani::proof]
fn u1k_conv_u64() {
    conv_contract::<u64>();
}

fn prim_contract<C: CellType + kani::Arbitrary>() {
    let x: C = kani::any();
    let y: C = kani::any();
    let bits = C::BITS;
    let mask: u64 = if bits == 64 { u64::MAX } else { (1u64 << bits) - 1 };
    let (a, b) = (x.into_u64(), y.into_u64());
    assert!(x.wrapping_add(y).into_u64() == a.wrapping_add(b) & mask);
    assert!(x.wrapping_mul(y).into_u64() == mulmod::<C>(a, b));
    assert!(x.wrapping_neg().wrapping_add(x) == C::ZERO);
    assert!(x.bitand(y).into_u64() == a & b);
    assert!(C::ZERO.into_u64() == 0 && C::ONE.into_u64() == 1 && C::NEG_ONE.into_u64() == mask);
    assert!(x.is_odd() == (a & 1 == 1));
    // shifts: exceeding the width yields 0 (the helpers rely on it for BITS - shift)
    let by: u32 = kani::any();
    let shr = x.wrapping_shr(by).into_u64();
    let shl = x.wrapping_shl(by).into_u64();
    if by >= bits {
        assert!(shr == 0 && shl == 0);
    } else {
        assert!(shr == a >> by);
        assert!(shl == (a << by) & mask);
    }
    // trailing zeros: BITS for zero, else the 2-adic valuation
    let tz = x.trailing_zeros();
    if a == 0 {
        assert!(tz == bits);
    } else {
        assert!(tz < bits && (a >> tz) & 1 == 1 && a & ((1u64 << tz) - 1) == 0);
    }
}

#[kani::proof]
fn u1k_prim_u8() {
    prim_contract::<u8>();
}
#[kani::proof]
fn u1k_prim_u16() {
    prim_contract::<u16>();
}
#[kani::proof]
fn u1k_prim_u32() {
    prim_contract::<u32>();
}
#[kani::proof]
fn u1k_prim_u64() {
    prim_contract::<u64>();
}
