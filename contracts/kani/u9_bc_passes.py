"""U9 `bc_passes` — the bytecode-generator passes of src/bc.rs that Kani can reach (C02)."""
UNIT = "u9_bc_passes"
MOD = "bc::verif_u9::"
KANI_FLAGS = []
TRUSTED = ["bytecode step semantics written in the harness (same as unit u5)",
           "CodeGen built with only the fields the pass touches initialised (HashMap fields never constructed)"]


def _params(tier):
    return {"N": 3 if tier == "quick" else 4, "UNWIND": 6 if tier == "quick" else 7}


def overlay(tier):
    return [{"src": "u9_bc_passes.rs", "dest": "src/verif_u9_bc_passes.rs", "mod_in": "src/bc.rs",
             "mod_name": "verif_u9", "params": _params(tier)}]


def harnesses(tier, seed):
    t = 400 if tier == "quick" else 1800
    n = _params(tier)["N"]
    return [
        {"name": MOD + "u9_parameter_reordering", "function": "bc::CodeGen::parameter_reordering",
         "clause": "preserves the step semantics of every Add/Sub/Mul/Copy instruction over memory/temporary/immediate operands and establishes its normal form (no leading immediate; Sub-immediate rewritten to Add; constant operands folded)",
         "properties": ["C02"], "bounded_by": "one instruction at a time (the pass is a per-instruction map); u8",
         "complete_over": "every instruction value at u8, every machine state", "timeout": t},
        {"name": MOD + "u9_strip_noops", "function": "bc::CodeGen::strip_noops",
         "clause": "non-noop instructions survive in order, `live` filtered in parallel, every in-range branch lands on the image of its old target",
         "properties": ["C02"], "bounded_by": "programs of %d instructions" % n,
         "complete_over": "every mix of Noop/Out/BrZ/BrNZ with in-range targets", "timeout": t,
         # `_ => assert!(false)` is the "kind of instruction changed" arm: must be dead
         "allow_unreachable": ["assertion failed: false"]},
        {"name": MOD + "u9_targets_and_count_temps", "function": "bc::CodeGen::{record_branch_targets, count_temps}",
         "clause": "is_target marks exactly the targets of BOTH branch kinds; count_temps == 1 + largest temporary index used by ANY instruction kind (Add/Sub/Mul/Copy)",
         # C06: Program::temps sizes the temporaries array behind OpsContext; the op contracts of u5 assume every Tmp index < temps
         "properties": ["C02", "C06"], "bounded_by": "a 3-instruction program shape (arithmetic kind and branch kind symbolic)", "complete_over": "all operands", "timeout": t},
    ]
