// U2b — Kani contracts for BcInterpreter::{build_context, free_context} (src/exec/bcint/mod.rs),
// properties C17 (allocation failure) and C06 (temporaries array sized from the temp count).
// Overlaid as `#[cfg(kani)] mod verif_u2b;` at the end of src/exec/bcint/mod.rs of a scratch copy.
#![allow(dead_code, unused_unsafe, static_mut_refs)]

use super::*;
use std::alloc::{alloc, Layout};

/// bit k set: the k-th `alloc_zeroed` request is refused (symbolic: WHICHEVER request fails)
static mut FAIL_MASK: u8 = 0;
static mut ZCALLS: u8 = 0;
static mut REFUSED: u8 = 0;
/// refusals only happen while the function under contract runs (the native replay allocator is
/// global: the test framework's own allocations must not be refused)
static mut ARMED: bool = false;

unsafe fn refuse_now() -> bool {
    if !ARMED {
        return false;
    }
    let k = ZCALLS;
    if ZCALLS < 7 {
        ZCALLS += 1;
    }
    let r = (FAIL_MASK >> k) & 1 == 1;
    if r && REFUSED < 200 {
        REFUSED += 1;
    }
    r
}

/// Contract-level model of `GlobalAlloc::alloc_zeroed`: zeroed block of the layout, or null.
unsafe fn may_fail_alloc_zeroed(layout: Layout) -> *mut u8 {
    if refuse_now() {
        std::ptr::null_mut()
    } else {
        let p = alloc(layout);
        kani::assume(!p.is_null());
        std::ptr::write_bytes(p, 0, layout.size());
        p
    }
}


/// Native replay only (ignored by Kani, which models the allocator itself): a real global
/// allocator whose `alloc_zeroed` fails exactly when the harness says so, so that the verifier's
/// counterexample can be replayed against the real code outside the model checker.
pub struct ReplayAlloc;
unsafe impl std::alloc::GlobalAlloc for ReplayAlloc {
    unsafe fn alloc(&self, layout: Layout) -> *mut u8 {
        std::alloc::System.alloc(layout)
    }
    unsafe fn dealloc(&self, p: *mut u8, layout: Layout) {
        std::alloc::System.dealloc(p, layout)
    }
    unsafe fn alloc_zeroed(&self, layout: Layout) -> *mut u8 {
        if refuse_now() {
            std::ptr::null_mut()
        } else {
            std::alloc::System.alloc_zeroed(layout)
        }
    }
}
#[global_allocator]
static REPLAY_ALLOC: ReplayAlloc = ReplayAlloc;

/// `handle_alloc_error` never returns.
fn alloc_error_aborts(_layout: Layout) -> ! {
    kani::assume(false);
    loop {}
}

fn any_interp<C: CellType>(max_temps: usize) -> BcInterpreter<C> {
    let temps: usize = kani::any();
    kani::assume(temps <= max_temps);
    let min_accessed: isize = kani::any();
    let max_accessed: isize = kani::any();
    BcInterpreter {
        bytecode: Program { temps, min_accessed, max_accessed, live: Vec::new(), insts: Vec::new() },
    }
}

fn c_build_context<C: CellType + kani::Arbitrary>() {
    let interp = any_interp::<C>(VERIF_PARAM_TEMPS);
    let mut cxt = Context::<C>::without_io();
    let budget: usize = kani::any();
    cxt.budget = budget;
    unsafe {
        FAIL_MASK = kani::any();
        ARMED = true;
        let ops = interp.build_context(cxt);
        ARMED = false;
        // Reaching this point means the call returned: then the context is real memory.
        assert!(!ops.is_null());
        assert!(REFUSED == 0);
        assert!((*ops).min_accessed == interp.bytecode.min_accessed);
        assert!((*ops).max_accessed == interp.bytecode.max_accessed);
        assert!((*ops).context.budget == budget);
        // the temporaries array holds max(temps, 2) zeroed cells, all inside the allocation
        // (Kani checks every access below against the allocation bounds)
        let n = interp.bytecode.temps.max(2);
        let t = std::ptr::addr_of_mut!((*ops).temps) as *mut C;
        let i: usize = kani::any();
        kani::assume(i < n);
        assert!(*t.add(i) == C::ZERO);
        *t.add(i) = kani::any();
        // free_context returns the captured context and releases exactly that block
        let back = interp.free_context(ops);
        assert!(back.budget == budget);
    }
}

#[kani::proof]
#[kani::unwind(4)]
#[kani::stub(std::alloc::alloc_zeroed, may_fail_alloc_zeroed)]
#[kani::stub(std::alloc::handle_alloc_error, alloc_error_aborts)]
fn u2b_build_context_u8() {
    c_build_context::<u8>();
}

#[kani::proof]
#[kani::unwind(4)]
#[kani::stub(std::alloc::alloc_zeroed, may_fail_alloc_zeroed)]
#[kani::stub(std::alloc::handle_alloc_error, alloc_error_aborts)]
fn u2b_build_context_u64() {
    c_build_context::<u64>();
}
