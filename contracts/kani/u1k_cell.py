"""U1k: Kani twins of the U1 cell-arithmetic contracts (C14) -- counterexample providers and a
complete (loop-free, full-domain) proof of the conversion and primitive contracts at every width."""
UNIT = "u1k_cell"
MOD = "verif_u1k::"
KANI_FLAGS = []
TRUSTED = ["u128 reference arithmetic in the harness (mulmod)"]


def overlay(tier):
    return [{"src": "u1k_cell.rs", "dest": "src/verif_u1k_cell.rs", "mod_in": "src/lib.rs",
             "mod_name": "verif_u1k", "params": {}},
            {"src": "u1k_optsum.rs", "dest": "src/verif_u1k_optsum.rs", "mod_in": "src/opt.rs",
             "mod_name": "verif_u1k_opt", "params": {}}]


def harnesses(tier, seed):
    hs = []
    t = 300 if tier == "quick" else 1200
    hs.append({"name": MOD + "u1k_wrapping_div_u8", "function": "CellType::wrapping_div (u8 instance)",
               "clause": "Some(x): x*d == n (mod 256) and no smaller y solves it; None: no y solves it -- all (n, d)",
               "properties": ["C14"], "bounded_by": "width 8 only (wider widths: Verus unit u1_cell)",
               "complete_over": "all 65536 operand pairs at u8 (loop bounded by the width, unwinding assertions on)", "timeout": t})
    hs.append({"name": MOD + "u1k_wrapping_inv_u8", "function": "CellType::wrapping_inv (u8 instance)",
               "clause": "Some(i) iff odd, and then i*a == 1 (mod 256)", "properties": ["C14"],
               "bounded_by": "width 8 only", "complete_over": "all 256 operands", "timeout": t})
    hs.append({"name": MOD + "u1k_wrapping_pow_u8", "function": "CellType::wrapping_pow (u8 instance)",
               "clause": "pow(b,0) == 1 and pow(b,e) == pow(b,e-1)*b (mod 256)", "properties": ["C14"],
               "bounded_by": "width 8 only", "complete_over": "all 65536 (base, exponent) pairs", "timeout": t})
    hs.append({"name": "opt::verif_u1k_opt::u1k_geometric_sum_u8", "function": "opt::wrapping_geometric_sum (u8 instance)",
               "clause": "S(m,0) == 0 and S(m,n) == 1 + m*S(m,n-1) (mod 256): the sum of the first n powers of m", "properties": ["C14"],
               "bounded_by": "width 8 only (all widths: Verus unit u10_optloop)", "complete_over": "all 65536 (multiplier, count) pairs", "timeout": t})
    for w in (8, 16, 32, 64):
        hs.append({"name": MOD + "u1k_conv_u%d" % w,
                   "function": "CellType::{into_u64, into_i64, from_u64, from_u8, into_u8, from_i16, try_into_i16} for u%d" % w,
                   "clause": "zero/sign extension and truncation as documented; from_u64(into_u64(x)) == x; into_u8(from_u8(b)) == b; try_into_i16(x) == Some(s) => from_i16(s) == x",
                   "properties": ["C14"], "bounded_by": None,
                   "complete_over": "full domain of every argument (loop-free harness: a complete proof at this width)", "timeout": t,
                   # at 8 and 16 bits every value fits an i16: the `None` arm is legitimately dead
                   "allow_unreachable": (["s < i16::MIN as i64"] if w <= 16 else []) + (["c.try_into_i16() == Some(h)"] if w < 16 else [])})
        hs.append({"name": MOD + "u1k_prim_u%d" % w,
                   "function": "CellType::{wrapping_add, wrapping_mul, wrapping_neg, bitand, wrapping_shr, wrapping_shl, trailing_zeros, is_odd, ZERO, ONE, NEG_ONE} for u%d" % w,
                   "clause": "ring operations modulo 2^%d; shifts by >= BITS yield 0; trailing_zeros == BITS for 0 else the 2-adic valuation" % w,
                   "properties": ["C14"], "bounded_by": None,
                   "complete_over": "full domain of every argument (loop-free)", "timeout": t})
    return hs
