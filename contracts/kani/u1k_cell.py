"""U1k: Kani twins of the U1 cell-arithmetic contracts (C14) -- counterexample providers and a
complete (loop-free, full-domain) proof of the conversion and primitive contracts at every width."""
UNIT = "u1k_cell"
MOD = "verif_u1k::"
KANI_FLAGS = []
TRUSTED = ["u128 reference arithmetic in the harness (mulmod)",
           "the 12 assume_specification clauses listed for Verus unit u1_cell are DISCHARGED by u1k_stdspec_* (same clause text, real core functions, full domain); what stays trusted there: Verus reads >>, <<, `as` on machine integers as Rust does, and Kani's pinned core is the core /repo builds against"]


import os, re

_VERUS_UNIT = os.path.join(os.path.dirname(os.path.abspath(__file__)), "..", "verus", "u1_cell", "unit.rs")
_ASSUME_RE = re.compile(r"assume_specification\s*\[\s*(u\d+)::(\w+)\s*\]\s*\(([^)]*)\)\s*->\s*\(r:\s*([^)]+)\)\s*ensures\s+r\s*==\s*(.*?);", re.S)


def std_specs():
    """The `assume_specification` clauses of the Verus unit u1_cell (contracts ASSUMED there about
    uN::{checked_shr, checked_shl, wrapping_neg}), parsed on every run: [(type, fn, params, ret, expr)]."""
    return [(m.group(1), m.group(2), [q.strip() for q in m.group(3).split(",")], m.group(4).strip(), " ".join(m.group(5).split()))
            for m in _ASSUME_RE.finditer(open(_VERUS_UNIT).read())]


def _stdspec_text():
    """One loop-free harness per assumed clause: the SAME `ensures` expression, asserted of the real
    std function over the full domain of its arguments (a complete proof of the assumed contract)."""
    out = ["// GENERATED on every run from contracts/verus/u1_cell/unit.rs (assume_specification clauses)",
           "#![allow(dead_code, unused_parens)]"]
    for ty, fn, params, ret, expr in std_specs():
        out.append("#[kani::proof]\nfn u1k_stdspec_%s_%s() {" % (ty, fn))
        names = []
        for q in params:
            n, t = [z.strip() for z in q.split(":")]
            names.append(n)
            out.append("    let %s: %s = kani::any();" % (n, t))
        out.append("    let r: %s = %s::%s(%s);" % (ret, ty, fn, ", ".join(names)))
        out.append("    assert!(r == (%s));" % expr)
        out.append("}")
    return "\n".join(out) + "\n"


def overlay(tier):
    return [{"src": "u1k_cell.rs", "dest": "src/verif_u1k_cell.rs", "mod_in": "src/lib.rs",
             "mod_name": "verif_u1k", "params": {}},
            {"src": _stdspec_text(), "dest": "src/verif_u1k_stdspec.rs", "mod_in": "src/lib.rs",
             "mod_name": "verif_u1k_std", "params": {}},
            {"src": "u1k_optsum.rs", "dest": "src/verif_u1k_optsum.rs", "mod_in": "src/opt.rs",
             "mod_name": "verif_u1k_opt", "params": {}}]


def harnesses(tier, seed):
    hs = []
    t = 300 if tier == "quick" else 1200
    hs.append({"name": MOD + "u1k_wrapping_div_u8", "function": "CellType::wrapping_div (u8 instance)",
               "clause": "Some(x): x*d == n (mod 256) and no smaller y solves it; None: no y solves it -- all (n, d)",
               "properties": ["C14"], "bounded_by": "width 8 only (wider widths: Verus unit u1_cell)",
               "complete_over": "all 65536 operand pairs at u8 (loop bounded by the width, unwinding assertions on)", "timeout": t})
    hs.append({"name": MOD + "u1k_wrapping_inv_u8", "function": "CellType::wrapping_inv (u8 instance)",
               "clause": "Some(i) iff odd, and then i*a == 1 (mod 256)", "properties": ["C14"],
               "bounded_by": "width 8 only", "complete_over": "all 256 operands", "timeout": t})
    hs.append({"name": MOD + "u1k_wrapping_pow_u8", "function": "CellType::wrapping_pow (u8 instance)",
               "clause": "pow(b,0) == 1 and pow(b,e) == pow(b,e-1)*b (mod 256)", "properties": ["C14"],
               "bounded_by": "width 8 only", "complete_over": "all 65536 (base, exponent) pairs", "timeout": t})
    hs.append({"name": "opt::verif_u1k_opt::u1k_geometric_sum_u8", "function": "opt::wrapping_geometric_sum (u8 instance)",
               "clause": "S(m,0) == 0 and S(m,n) == 1 + m*S(m,n-1) (mod 256): the sum of the first n powers of m", "properties": ["C14"],
               "bounded_by": "width 8 only (all widths: Verus unit u10_optloop)", "complete_over": "all 65536 (multiplier, count) pairs", "timeout": t})
    for w in (8, 16, 32, 64):
        hs.append({"name": MOD + "u1k_conv_u%d" % w,
                   "function": "CellType::{into_u64, into_i64, from_u64, from_u8, into_u8, from_i16, try_into_i16} for u%d" % w,
                   "clause": "zero/sign extension and truncation as documented; from_u64(into_u64(x)) == x; into_u8(from_u8(b)) == b; try_into_i16(x) == Some(s) => from_i16(s) == x",
                   # C04: `.` / `,` of the in-place interpreter go through into_u8 / from_u8 (callee contracts its proof assumes)
                   "properties": ["C14", "C04"], "bounded_by": None,
                   "complete_over": "full domain of every argument (loop-free harness: a complete proof at this width)", "timeout": t,
                   # at 8 and 16 bits every value fits an i16: the `None` arm is legitimately dead
                   "allow_unreachable": (["s < i16::MIN as i64"] if w <= 16 else []) + (["c.try_into_i16() == Some(h)"] if w < 16 else [])})
        hs.append({"name": MOD + "u1k_prim_u%d" % w,
                   "function": "CellType::{wrapping_add, wrapping_mul, wrapping_neg, bitand, wrapping_shr, wrapping_shl, trailing_zeros, is_odd, ZERO, ONE, NEG_ONE} for u%d" % w,
                   "clause": "ring operations modulo 2^%d; shifts by >= BITS yield 0; trailing_zeros == BITS for 0 else the 2-adic valuation" % w,
                   "properties": ["C14"], "bounded_by": None,
                   "complete_over": "full domain of every argument (loop-free)", "timeout": t})
    specs = std_specs()
    if len(specs) != 12:
        raise RuntimeError("lost anchor: expected 12 assume_specification clauses in u1_cell/unit.rs, found %d" % len(specs))
    for ty, fn, params, ret, expr in specs:
        hs.append({"name": "verif_u1k_std::u1k_stdspec_%s_%s" % (ty, fn), "function": "core %s::%s (std; the contract the Verus unit u1_cell ASSUMES via assume_specification)" % (ty, fn),
                   "clause": "r == " + expr, "properties": ["C14"], "bounded_by": None,
                   "complete_over": "full domain of every argument (loop-free; clause text parsed from the Verus unit on every run)", "timeout": t,
                   "allow_unreachable": []})
    return hs
