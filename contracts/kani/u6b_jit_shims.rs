// U6b — Kani contracts for the three runtime shims the JIT's machine code calls
// (src/exec/basejit/mod.rs: hpbf_context_extend / hpbf_context_input / hpbf_context_output),
// property C08 (I/O failure must be visible to the generated code so that it can stop) and C06.
// Loop-free over all reader / writer outcomes: complete.
#![allow(dead_code, unused_unsafe, static_mut_refs)]

use super::*;
use std::io::{self, Read, Write};

static mut IO_CALLS: usize = 0;
static mut IO_BYTE: u8 = 0;

struct Oracle {
    mode: u8, // 0 = Ok(0), 1 = Ok(1)
    byte: u8,
}
impl Read for Oracle {
    fn read(&mut self, buf: &mut [u8]) -> io::Result<usize> {
        unsafe {
            IO_CALLS += 1;
        }
        if self.mode == 0 {
            Ok(0)
        } else {
            buf[0] = self.byte;
            Ok(1)
        }
    }
}
impl Write for Oracle {
    fn write(&mut self, buf: &[u8]) -> io::Result<usize> {
        unsafe {
            IO_CALLS += 1;
            IO_BYTE = buf[0];
        }
        if self.mode == 0 {
            Ok(0)
        } else {
            Ok(1)
        }
    }
    fn flush(&mut self) -> io::Result<()> {
        Ok(())
    }
}

/// What the machine code can observe of one input request: the value it will store, and whether
/// it is told to stop.  Written against the CURRENT signature of the shim (adapted by the unit
/// file if the signature changes): see `observe_input` in the generated part.
VERIF_PARAM_OBSERVE_INPUT

/// C08: the input shim must let its caller distinguish FAILURE (source absent or error: the
/// program stops at this operation) from END OF INPUT (reads as 0, execution continues).
#[kani::proof]
#[kani::unwind(3)]
fn u6b_input_shim_reports_failure() {
    let present: bool = kani::any();
    let mode: u8 = kani::any();
    kani::assume(mode <= 1);
    let byte: u8 = kani::any();
    let mut cxt: Context<'static, u8> = if present {
        Context::new(Some(Box::new(Oracle { mode, byte })), None)
    } else {
        Context::new(None, None)
    };
    let (value, stop) = observe_input(&mut cxt);
    if !present {
        // failure: the generated code must be told to stop
        assert!(stop);
    } else {
        assert!(!stop);
        assert!(value == if mode == 0 { 0 } else { byte });
        assert!(unsafe { IO_CALLS } == 1);
    }
}

/// C08: the output shim reports a refused byte (`true` = stop), emits the low 8 bits once.
#[kani::proof]
#[kani::unwind(3)]
fn u6b_output_shim() {
    let present: bool = kani::any();
    let mode: u8 = kani::any();
    kani::assume(mode <= 1);
    let value: u32 = kani::any();
    let mut cxt: Context<'static, u8> = if present {
        Context::new(None, Some(Box::new(Oracle { mode, byte: 0 })))
    } else {
        Context::new(None, None)
    };
    let stop = hpbf_context_output::<u32>(&mut cxt, value);
    assert!(stop == (present && mode == 0));
    if present {
        assert!(unsafe { IO_CALLS } == 1 && unsafe { IO_BYTE } == value as u8);
    }
}

/// C06: the extend shim makes exactly the requested range accessible (delegates to
/// Memory::make_accessible, whose contract is unit u2's).
#[kani::proof]
#[kani::unwind(8)]
fn u6b_extend_shim() {
    let mut cxt: Context<'static, u8> = Context::new(None, None);
    let min: isize = kani::any();
    let max: isize = kani::any();
    kani::assume(-3 <= min && min <= 0 && 1 <= max && max <= 4);
    hpbf_context_extend::<u8>(&mut cxt, min, max);
    let q: isize = kani::any();
    kani::assume(min <= q && q < max);
    assert!(cxt.memory.check(q));
}
