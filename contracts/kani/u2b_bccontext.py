"""U2b — BcInterpreter::{build_context, free_context} under a may-fail allocator (C17) and the size of
the temporaries array (C06)."""
UNIT = "u2b_bccontext"
MOD = "exec::bcint::verif_u2b::"
KANI_FLAGS = ["-Z", "stubbing"]
TRUSTED = ["allocator contract: alloc_zeroed returns a zeroed block of the requested layout or null (harness stub); handle_alloc_error does not return"]


def overlay(tier):
    return [{"src": "u2b_bccontext.rs", "dest": "src/exec/bcint/verif_u2b.rs", "mod_in": "src/exec/bcint/mod.rs",
             "mod_name": "verif_u2b", "params": {"TEMPS": 6 if tier == "quick" else 24}}]


def harnesses(tier, seed):
    n = 6 if tier == "quick" else 24
    hs = []
    for w in (8, 64):
        hs.append({"name": "%su2b_build_context_u%d" % (MOD, w),
                   "function": "BcInterpreter::{build_context, free_context} <u%d>" % w,
                   "clause": "if build_context returns, the block is non-null (allocation failure never survives), fields are initialised from the program, temps[0..max(temps,2)) are zeroed cells inside the allocation; free_context returns the captured context and frees that block with its layout",
                   "properties": ["C17", "C06"], "bounded_by": "temps <= %d" % n,
                   "complete_over": "all window bounds, budgets, temp counts within the bound; allocator failing or not",
                   "timeout": 300})
    return hs
