// U2 `tape` — Kani contracts for src/runtime.rs (properties C09, C17, C06, C08).
//
// Overlaid as `#[cfg(kani)] mod verif_u2;` at the end of src/runtime.rs of a scratch copy, so the
// private fields of the REAL `Memory` / `Context` are reachable.
//
//   pre-state  := ANY well-formed Memory<C>: size in 0..=K cells, ARBITRARY contents, logical pointer
//                 anywhere from K2 cells below the buffer to K2 cells above it (the "pointer outside
//                 0..size" states included) -- built by writing the fields directly;
//   call the real operation with symbolic arguments;
//   post       := the operation's effect on the ABSTRACT VIEW  view : isize -> C  (total, 0 outside
//                 the buffer), checked at a fresh symbolic index, so "every other cell unchanged"
//                 is proved, not assumed; plus well-formedness, plus Kani's own pointer checks on
//                 every raw access inside the real code (in bounds, live object, dealloc layout).
//
// One verified step from an arbitrary pre-state is an inductive step: call HISTORIES are
// unbounded.  Bounded: K, K2 and the range R of offsets passed to the allocating operations.
#![allow(dead_code, unused_unsafe, static_mut_refs)]

use super::*;
use std::alloc::{alloc, Layout};
use std::io;

const K: usize = VERIF_PARAM_K;
const K2: isize = VERIF_PARAM_K2;
const R: isize = VERIF_PARAM_R;
/// Observation window for the view (covers every cell of the old and of the new buffer).
const B: isize = 3 * (K as isize + K2 + R) + 4;
const FAR: isize = 1 << 62;

/// ANY well-formed memory (see header). Uses `alloc`, not `alloc_zeroed`, so that the C17 harnesses
/// can replace `alloc_zeroed` by a failing allocator without affecting the pre-state.
unsafe fn any_mem<C: CellType + kani::Arbitrary>() -> Memory<C> {
    let size: usize = kani::any();
    kani::assume(size <= K);
    let mut m = Memory::<C>::new();
    if size > 0 {
        let buf = alloc(Layout::array::<C>(size).unwrap()) as *mut C;
        kani::assume(!buf.is_null());
        let mut i = 0;
        while i < size {
            *buf.add(i) = kani::any();
            i += 1;
        }
        m.buffer = buf;
        m.size = size;
    }
    let off: isize = kani::any();
    kani::assume(-K2 <= off && off <= size as isize + K2);
    m.offset = off as usize;
    m
}

/// Representation invariant.
fn wf<C: CellType>(m: &Memory<C>) -> bool {
    (m.size == 0 && m.buffer.is_null()) || (m.size > 0 && !m.buffer.is_null())
}

/// The abstract view, relative to the logical pointer; computed from the fields, not through the API.
fn view<C: CellType>(m: &Memory<C>, i: isize) -> C {
    let p = (m.offset as isize).wrapping_add(i);
    if p >= 0 && (p as usize) < m.size {
        unsafe { *m.buffer.add(p as usize) }
    } else {
        C::ZERO
    }
}

fn in_buffer<C: CellType>(m: &Memory<C>, i: isize) -> bool {
    let p = (m.offset as isize).wrapping_add(i);
    p >= 0 && (p as usize) < m.size
}

fn any_index() -> isize {
    let i: isize = kani::any();
    kani::assume(-B <= i && i <= B);
    i
}

// ------------------------------------------------------------------ C09: per-operation contracts

fn c_new<C: CellType + kani::Arbitrary>() {
    let m = Memory::<C>::new();
    assert!(wf(&m) && m.size == 0);
    let i: isize = kani::any();
    assert!(m.read(i) == C::ZERO);
    let d = Memory::<C>::default();
    assert!(wf(&d) && d.size == 0 && d.offset == 0);
}

fn c_read<C: CellType + kani::Arbitrary>() {
    unsafe {
        let m = any_mem::<C>();
        let (b0, s0, o0) = (m.buffer, m.size, m.offset);
        let o: isize = kani::any();
        kani::assume(-FAR <= o && o <= FAR);
        let expect = view(&m, o);
        kani::cover!(in_buffer(&m, o), "read inside the buffer");
        kani::cover!(!in_buffer(&m, o) && m.size > 0, "read outside the buffer");
        let r = m.read(o);
        assert!(r == expect);
        // reads never allocate and change nothing
        assert!(m.buffer == b0 && m.size == s0 && m.offset == o0);
    }
}

fn c_check<C: CellType + kani::Arbitrary>() {
    unsafe {
        let mut m = any_mem::<C>();
        let (b0, s0, o0) = (m.buffer, m.size, m.offset);
        let o: isize = kani::any();
        kani::assume(-FAR <= o && o <= FAR);
        let expect = in_buffer(&m, o);
        assert!(m.check(o) == expect);
        assert!(m.buffer == b0 && m.size == s0 && m.offset == o0);
    }
}

fn c_mov<C: CellType + kani::Arbitrary>() {
    unsafe {
        let mut m = any_mem::<C>();
        let (b0, s0) = (m.buffer, m.size);
        let d: isize = kani::any();
        kani::assume(-FAR <= d && d <= FAR);
        let i = any_index();
        let expect = view(&m, i + d);
        m.mov(d);
        assert!(view(&m, i) == expect);
        // moves never allocate
        assert!(m.buffer == b0 && m.size == s0 && wf(&m));
    }
}

fn c_write<C: CellType + kani::Arbitrary>() {
    unsafe {
        let mut m = any_mem::<C>();
        let o: isize = kani::any();
        kani::assume(-R <= o && o <= R);
        let x: C = kani::any();
        let j = any_index();
        let before = view(&m, j);
        kani::cover!(in_buffer(&m, o), "write inside the buffer");
        kani::cover!(!in_buffer(&m, o) && (m.offset as isize) + o < 0, "write growing below");
        kani::cover!(!in_buffer(&m, o) && (m.offset as isize) + o >= m.size as isize, "write growing above");
        m.write(o, x);
        assert!(wf(&m));
        assert!(view(&m, j) == if j == o { x } else { before });
        assert!(in_buffer(&m, o));
        assert!(m.read(o) == x);
    }
}

fn c_write_oob<C: CellType + kani::Arbitrary>() {
    unsafe {
        let mut m = any_mem::<C>();
        let o: isize = kani::any();
        kani::assume(-R <= o && o <= R);
        let x: C = kani::any();
        let j = any_index();
        let before = view(&m, j);
        m.write_out_of_bounds(o, x);
        assert!(wf(&m));
        assert!(view(&m, j) == if j == o { x } else { before });
    }
}

fn c_make_accessible<C: CellType + kani::Arbitrary>() {
    unsafe {
        let mut m = any_mem::<C>();
        let (b0, s0, o0) = (m.buffer, m.size, m.offset);
        let s: isize = kani::any();
        let e: isize = kani::any();
        kani::assume(-R <= s && s < e && e <= R);
        let j = any_index();
        let before = view(&m, j);
        let j_was_accessible = in_buffer(&m, j);
        let p0 = o0 as isize;
        let below = p0 + s < 0;
        let above = p0 + e > s0 as isize;
        kani::cover!(below && !above, "growth below only");
        kani::cover!(!below && above, "growth above only");
        kani::cover!(below && above && s0 > 0, "growth on both sides of a non-empty buffer");
        kani::cover!(!below && !above, "no growth needed");
        m.make_accessible(s, e);
        assert!(wf(&m));
        // contents and logical pointer preserved
        assert!(view(&m, j) == before);
        // requested range accessible afterwards
        let q: isize = kani::any();
        kani::assume(s <= q && q < e);
        assert!(in_buffer(&m, q));
        assert!(m.check(q));
        // no reallocation when the range was already accessible
        if !below && !above {
            assert!(m.buffer == b0 && m.size == s0 && m.offset == o0);
        }
        // never shrinks; a cell that was accessible stays accessible (the back ends rely on this:
        // they probe only the far edge of their window after a move)
        assert!(m.size >= s0);
        if j_was_accessible {
            assert!(in_buffer(&m, j));
        }
        // current_ptr addresses the logical cell 0
        if in_buffer(&m, 0) {
            assert!(m.current_ptr() == m.buffer.add(m.offset));
        }
    }
}

fn c_ptr_api<C: CellType + kani::Arbitrary>() {
    unsafe {
        let mut m = any_mem::<C>();
        kani::assume(m.size > 0);
        let k: isize = kani::any();
        kani::assume(-R <= k && k <= R);
        // Pointers are restricted to the owned block and its one-past-the-end address: CBMC's
        // pointer model is exact there.  (For pointers further out Kani produced a
        // counterexample that does NOT replay natively -- an artefact of its object/offset
        // encoding -- so that part of the pointer API is not decided; see DESIGN.md.)
        let p0 = m.offset as isize;
        kani::assume(0 <= p0 && p0 <= m.size as isize);
        kani::assume(0 <= p0 + k && p0 + k <= m.size as isize);
        // check_ptr(current_ptr() + k) <=> check(k)
        let p = m.current_ptr().wrapping_offset(k);
        let expect = in_buffer(&m, k);
        kani::cover!(expect, "target inside");
        kani::cover!(!expect, "target one past the end");
        assert!(m.check_ptr(p) == expect);
        // set_current_ptr(current_ptr() + k) == mov(k)
        let i = any_index();
        let want = view(&m, i + k);
        let (b0, s0) = (m.buffer, m.size);
        m.set_current_ptr(p);
        assert!(view(&m, i) == want);
        assert!(m.buffer == b0 && m.size == s0);
        assert!(m.current_ptr() == p);
    }
}

fn c_drop<C: CellType + kani::Arbitrary>() {
    unsafe {
        let m = any_mem::<C>();
        // Kani checks that `dealloc` gets the owned block with the layout it was allocated with
        drop(m);
    }
}

macro_rules! widths {
    ($body:ident, $unwind:literal, $h8:ident, $h16:ident, $h32:ident, $h64:ident) => {
        #[kani::proof]
        #[kani::unwind($unwind)]
        fn $h8() {
            $body::<u8>();
        }
        #[kani::proof]
        #[kani::unwind($unwind)]
        fn $h16() {
            $body::<u16>();
        }
        #[kani::proof]
        #[kani::unwind($unwind)]
        fn $h32() {
            $body::<u32>();
        }
        #[kani::proof]
        #[kani::unwind($unwind)]
        fn $h64() {
            $body::<u64>();
        }
    };
}

widths!(c_new, VERIF_PARAM_UNWIND, u2_new_u8, u2_new_u16, u2_new_u32, u2_new_u64);
widths!(c_read, VERIF_PARAM_UNWIND, u2_read_u8, u2_read_u16, u2_read_u32, u2_read_u64);
widths!(c_check, VERIF_PARAM_UNWIND, u2_check_u8, u2_check_u16, u2_check_u32, u2_check_u64);
widths!(c_mov, VERIF_PARAM_UNWIND, u2_mov_u8, u2_mov_u16, u2_mov_u32, u2_mov_u64);
widths!(c_write, VERIF_PARAM_UNWIND, u2_write_u8, u2_write_u16, u2_write_u32, u2_write_u64);
widths!(c_write_oob, VERIF_PARAM_UNWIND, u2_write_oob_u8, u2_write_oob_u16, u2_write_oob_u32, u2_write_oob_u64);
widths!(c_make_accessible, VERIF_PARAM_UNWIND, u2_make_accessible_u8, u2_make_accessible_u16, u2_make_accessible_u32, u2_make_accessible_u64);
widths!(c_ptr_api, VERIF_PARAM_UNWIND, u2_ptr_api_u8, u2_ptr_api_u16, u2_ptr_api_u32, u2_ptr_api_u64);
widths!(c_drop, VERIF_PARAM_UNWIND, u2_drop_u8, u2_drop_u16, u2_drop_u32, u2_drop_u64);

// ------------------------------------------------------------------ C17: allocation failure

/// bit k set: the k-th `alloc_zeroed` request is refused (symbolic: WHICHEVER request fails)
static mut FAIL_MASK: u8 = 0;
static mut ZCALLS: u8 = 0;
static mut REFUSED: u8 = 0;
/// refusals only happen while the function under contract runs (the native replay allocator is
/// global: the test framework's own allocations must not be refused)
static mut ARMED: bool = false;

unsafe fn refuse_now() -> bool {
    if !ARMED {
        return false;
    }
    let k = ZCALLS;
    if ZCALLS < 7 {
        ZCALLS += 1;
    }
    let r = (FAIL_MASK >> k) & 1 == 1;
    if r && REFUSED < 200 {
        REFUSED += 1;
    }
    r
}

/// Contract-level model of `GlobalAlloc::alloc_zeroed`: a zeroed block of the requested layout,
/// or null.  Which it is, is chosen by the harness (symbolically).
unsafe fn may_fail_alloc_zeroed(layout: Layout) -> *mut u8 {
    if refuse_now() {
        std::ptr::null_mut()
    } else {
        let p = alloc(layout);
        kani::assume(!p.is_null());
        std::ptr::write_bytes(p, 0, layout.size());
        p
    }
}


/// Contract-level model of `GlobalAlloc::realloc`: either null (the old block stays valid and
/// untouched), or a block of the new size holding the old contents up to the smaller of the two
/// sizes (the rest uninitialised), the old block freed.  Counted as a request like any other.
unsafe fn may_fail_realloc(ptr: *mut u8, layout: Layout, new_size: usize) -> *mut u8 {
    if refuse_now() {
        std::ptr::null_mut()
    } else {
        let new_layout = Layout::from_size_align_unchecked(new_size, layout.align());
        let p = alloc(new_layout);
        kani::assume(!p.is_null());
        let n = if layout.size() < new_size { layout.size() } else { new_size };
        std::ptr::copy_nonoverlapping(ptr, p, n);
        std::alloc::dealloc(ptr, layout);
        p
    }
}

/// Native replay only (ignored by Kani, which models the allocator itself): a real global
/// allocator whose `alloc_zeroed` fails exactly when the harness says so, so that the verifier's
/// counterexample can be replayed against the real code outside the model checker.
pub struct ReplayAlloc;
unsafe impl std::alloc::GlobalAlloc for ReplayAlloc {
    unsafe fn alloc(&self, layout: Layout) -> *mut u8 {
        std::alloc::System.alloc(layout)
    }
    unsafe fn dealloc(&self, p: *mut u8, layout: Layout) {
        std::alloc::System.dealloc(p, layout)
    }
    unsafe fn alloc_zeroed(&self, layout: Layout) -> *mut u8 {
        if refuse_now() {
            std::ptr::null_mut()
        } else {
            std::alloc::System.alloc_zeroed(layout)
        }
    }
    unsafe fn realloc(&self, p: *mut u8, layout: Layout, new_size: usize) -> *mut u8 {
        if refuse_now() {
            std::ptr::null_mut()
        } else {
            std::alloc::System.realloc(p, layout, new_size)
        }
    }
}
#[global_allocator]
static REPLAY_ALLOC: ReplayAlloc = ReplayAlloc;

/// `handle_alloc_error` never returns (it aborts the process): modelled as the end of the path.
fn alloc_error_aborts(_layout: Layout) -> ! {
    kani::assume(false);
    loop {}
}

fn c_make_accessible_oom<C: CellType + kani::Arbitrary>() {
    unsafe {
        let mut m = any_mem::<C>();
        let s: isize = kani::any();
        let e: isize = kani::any();
        kani::assume(-R <= s && s < e && e <= R);
        let j = any_index();
        let before = view(&m, j);
        FAIL_MASK = kani::any();
        ARMED = true;
        m.make_accessible(s, e);
        ARMED = false;
        // Reaching this point means the call RETURNED.  Then the tape must be intact: never a
        // null or stale buffer.  (Every access through a null / freed block inside the call is
        // reported by Kani's pointer checks.)
        assert!(wf(&m));
        assert!(view(&m, j) == before);
        let q: isize = kani::any();
        kani::assume(s <= q && q < e);
        assert!(in_buffer(&m, q));
        // a refused growth request is never survived (no retry, no continuing with the old tape)
        assert!(REFUSED == 0);
    }
}

fn c_write_oom<C: CellType + kani::Arbitrary>() {
    unsafe {
        let mut m = any_mem::<C>();
        let o: isize = kani::any();
        kani::assume(-R <= o && o <= R);
        let x: C = kani::any();
        FAIL_MASK = kani::any();
        ARMED = true;
        m.write(o, x);
        ARMED = false;
        assert!(wf(&m));
        assert!(view(&m, o) == x);
        assert!(REFUSED == 0);
    }
}

macro_rules! oom_widths {
    ($body:ident, $unwind:literal, $h8:ident, $h64:ident) => {
        #[kani::proof]
        #[kani::unwind($unwind)]
        #[kani::stub(std::alloc::alloc_zeroed, may_fail_alloc_zeroed)]
        #[kani::stub(std::alloc::realloc, may_fail_realloc)]
        #[kani::stub(std::alloc::handle_alloc_error, alloc_error_aborts)]
        fn $h8() {
            $body::<u8>();
        }
        #[kani::proof]
        #[kani::unwind($unwind)]
        #[kani::stub(std::alloc::alloc_zeroed, may_fail_alloc_zeroed)]
        #[kani::stub(std::alloc::realloc, may_fail_realloc)]
        #[kani::stub(std::alloc::handle_alloc_error, alloc_error_aborts)]
        fn $h64() {
            $body::<u64>();
        }
    };
}
oom_widths!(c_make_accessible_oom, VERIF_PARAM_UNWIND, u2_make_accessible_oom_u8, u2_make_accessible_oom_u64);
oom_widths!(c_write_oom, VERIF_PARAM_UNWIND, u2_write_oom_u8, u2_write_oom_u64);

// ------------------------------------------------------------------ C08: Context::input / output

static mut IO_CALLS: usize = 0;
static mut IO_LEN: usize = 0;
static mut IO_BYTE: u8 = 0;

/// A reader / writer whose FIRST answer is chosen by the harness: 0 = Ok(0), 1 = Ok(1), 2.. = Err of
/// one of several kinds (among them Interrupted and WouldBlock, which retrying helpers such as
/// `write_all` / `read_exact` treat specially); every later call -- there must be none -- succeeds.
fn err_kind(mode: u8) -> io::ErrorKind {
    match mode {
        2 => io::ErrorKind::Other,
        3 => io::ErrorKind::Interrupted,
        4 => io::ErrorKind::WouldBlock,
        5 => io::ErrorKind::BrokenPipe,
        _ => io::ErrorKind::UnexpectedEof,
    }
}

struct Oracle {
    mode: u8,
    byte: u8,
}

impl Read for Oracle {
    fn read(&mut self, buf: &mut [u8]) -> io::Result<usize> {
        let first = unsafe {
            IO_CALLS += 1;
            IO_LEN = buf.len();
            IO_CALLS == 1
        };
        match self.mode {
            0 if first => Ok(0),
            m if first && m >= 2 => Err(io::Error::from(err_kind(m))),
            _ => {
                buf[0] = self.byte;
                Ok(1)
            }
        }
    }
}

impl Write for Oracle {
    fn write(&mut self, buf: &[u8]) -> io::Result<usize> {
        let first = unsafe {
            IO_CALLS += 1;
            IO_LEN = buf.len();
            IO_BYTE = buf[0];
            IO_CALLS == 1
        };
        match self.mode {
            0 if first => Ok(0),
            m if first && m >= 2 => Err(io::Error::from(err_kind(m))),
            _ => Ok(1),
        }
    }
    fn flush(&mut self) -> io::Result<()> {
        Ok(())
    }
}

#[kani::proof]
#[kani::unwind(3)]
fn u2_context_input() {
    let present: bool = kani::any();
    let mode: u8 = kani::any();
    kani::assume(mode <= 6);
    let byte: u8 = kani::any();
    let budget: usize = kani::any();
    let mut cxt: Context<u8> = if present {
        Context::new(Some(Box::new(Oracle { mode, byte })), None)
    } else {
        Context::new(None, None)
    };
    cxt.budget = budget;
    let r = cxt.input();
    // result mapping: failure <=> source absent or Err; end of input reads as 0
    if !present || mode >= 2 {
        assert!(r.is_none());
    } else if mode == 0 {
        assert!(r == Some(0));
    } else {
        assert!(r == Some(byte));
    }
    // exactly one 1-byte read request when a source is present, none otherwise
    unsafe {
        assert!(IO_CALLS == if present { 1 } else { 0 });
        if present {
            assert!(IO_LEN == 1);
        }
    }
    // nothing else changes
    assert!(cxt.budget == budget && cxt.memory.size == 0 && cxt.memory.buffer.is_null());
}

#[kani::proof]
#[kani::unwind(3)]
fn u2_context_output() {
    let present: bool = kani::any();
    let mode: u8 = kani::any();
    kani::assume(mode <= 6);
    let value: u8 = kani::any();
    let budget: usize = kani::any();
    let mut cxt: Context<u8> = if present {
        Context::new(None, Some(Box::new(Oracle { mode, byte: 0 })))
    } else {
        Context::new(None, None)
    };
    cxt.budget = budget;
    let r = cxt.output(value);
    // a refused byte (Ok(0)) or an error is a failure; no sink is success
    if present && (mode == 0 || mode >= 2) {
        assert!(r.is_none());
    } else {
        assert!(r == Some(()));
    }
    unsafe {
        assert!(IO_CALLS == if present { 1 } else { 0 });
        if present {
            assert!(IO_LEN == 1 && IO_BYTE == value);
        }
    }
    assert!(cxt.budget == budget && cxt.memory.size == 0);
}

#[kani::proof]
fn u2_context_new() {
    let c: Context<u64> = Context::without_io();
    assert!(c.budget == 0 && c.memory.size == 0 && c.memory.buffer.is_null() && c.memory.offset == 0);
    assert!(c.input.is_none() && c.output.is_none());
}
