"""U6 `jit_select` — the baseline JIT's instruction selector / encoder against an x86-64 subset
semantics (C03; JIT parts of C06/C07/C10).  One Kani harness per CONCRETE bytecode instruction
instance, all machine states symbolic.  See u6_jit.rs.in for the contract."""
import os
import random

UNIT = "u6_jit"
MOD = "exec::basejit::codegen::verif_u6::"
KANI_FLAGS = []
TRUSTED = [
    "x86-64 subset semantics written in the harness (decoder + step function for exactly the encodings asm.rs emits: REX, 0x66, ModRM/SIB/disp8/disp32, mov/movzx/add/sub/imul/lea/inc/dec/cmp/test/sar/push/pop/call/jcc; flags ZF and CF only) -- a specification; conformance-checked on every run by executing each arithmetic instance as real machine code on the CPU (3 operand sets) and comparing with the bytecode semantics (a disagreement makes the obligation undecided)",
    "register map read off codegen.rs (rbx = context, rbp = tape pointer, rax/rcx scratch, temporaries 0..10 in r12-r15,rsi,rdi,rdx,r8-r11, >= 11 at [rsp+8t]) and Memory/Context field offsets 0/8/16/24",
    "bytecode step semantics (same as units u5/u9); temporaries are compared modulo 2^width",
    "instruction operands are ENUMERATED (register class x immediate class x offset class x live mask), not symbolic: a symbolic immediate makes the emitted length symbolic and Kani does not finish",
    "runtime calls are modelled by the SysV contract: rsp 16-byte aligned, first argument = context, caller-saved registers (rax rcx rdx rsi rdi r8-r11) hold arbitrary values afterwards, callee-saved ones are preserved; hpbf_context_extend leaves arbitrary (buffer, size, offset) in the context (what it guarantees about them is unit u2's contract)",
]

HERE = os.path.dirname(os.path.abspath(__file__))
WANTS_PLAYBACK_VALUES = True   # the native replay is driven by the verifier's counterexample state
CPU_RESULTS = {}   # instance -> "OK" | "MISMATCH ..." from the native CPU run of the last prepare()

TMPS = [0, 1, 4, 5, 6, 7, 11, 12]        # r12 (SIB base class), r13, rsi / rdi (byte-REX), rdx, r8, stack, stack
MEMS = [0, 1, -1, 15, 16, -16, -17]      # disp 0 / disp8 / disp32 on both sides for 8-byte cells
IMMS = {
    "u8": [0, 1, 2, 127, 128, 255],
    "u16": [0, 1, 255, 256, 0x7fff, 0x8000, 0xffff],
    "u32": [0, 1, 128, 0x7fffffff, 0x80000000, 0xffffffff],
    "u64": [0, 1, 2, 127, 128, 0xffffffffffffffff, 0xffffffffffffff7f, 0x7fffffff, 0x80000000,
            0xffffffff80000000, 0xffffffff7fffffff, 1 << 40],
}

# (op, dst kind, src0 kind, src1 kind, constraint) -- exactly the arms of emit_program's match
PATTERNS = [
    ("Copy", "M", "I", None, None), ("Copy", "M", "M", None, None), ("Copy", "M", "T", None, None),
    ("Copy", "T", "I", None, None), ("Copy", "T", "M", None, None), ("Copy", "T", "T", None, None),
    ("Add", "M", "M", "I", None), ("Add", "M", "M", "T", None), ("Add", "M", "M", "M", None),
    ("Add", "M", "T", "I", None), ("Add", "M", "T", "T", None), ("Add", "T", "M", "I", None),
    ("Add", "T", "M", "T", None), ("Add", "T", "M", "M", None), ("Add", "T", "T", "I", None),
    ("Add", "T", "T", "T", None), ("Add", "T", "T", "M", "d==a"),
    ("Sub", "M", "M", "T", None), ("Sub", "M", "M", "M", None), ("Sub", "M", "T", "T", None),
    ("Sub", "M", "T", "M", None), ("Sub", "T", "M", "T", None), ("Sub", "T", "M", "M", None),
    ("Sub", "T", "T", "T", None), ("Sub", "T", "T", "M", None), ("Sub", "M", "I", "T", None),
    ("Sub", "M", "I", "M", None), ("Sub", "T", "I", "T", None), ("Sub", "T", "I", "M", None),
    ("Mul", "M", "M", "I", None), ("Mul", "M", "M", "T", None), ("Mul", "M", "M", "M", None),
    ("Mul", "M", "T", "I", None), ("Mul", "M", "T", "T", None), ("Mul", "T", "M", "I", None),
    ("Mul", "T", "M", "T", None), ("Mul", "T", "M", "M", None), ("Mul", "T", "T", "I", None),
    ("Mul", "T", "T", "T", None), ("Mul", "T", "T", "M", "d==a"),
]

# instances that must always be present (the operand classes the property singles out)
MUST = [
    ("u64", ("Add", ("T", 0), ("T", 1), ("I", 1 << 40)), 0x3),
    ("u64", ("Add", ("T", 12), ("T", 1), ("I", 1 << 40)), 0x2),
    ("u64", ("Add", ("T", 12), ("T", 1), ("I", 5)), 0x2),
    ("u8", ("Add", ("T", 12), ("T", 11), ("I", 5)), 0x0),
    ("u8", ("Mul", ("T", 12), ("M", 1), ("M", -1)), 0x0),
    ("u64", ("Mul", ("T", 12), ("M", 16), ("M", -17)), 0xffff),
    ("u8", ("Mul", ("T", 12), ("T", 12), ("T", 1)), 0x2),
    ("u64", ("Mul", ("T", 11), ("T", 11), ("T", 12)), 0xffff),
    ("u64", ("Add", ("M", 0), ("M", 0), ("I", 0xffffffff7fffffff)), 0x0),
    ("u64", ("Mul", ("T", 0), ("T", 0), ("I", 1 << 40)), 0x1),
    ("u64", ("Sub", ("T", 4), ("I", 0x80000000), ("T", 4)), 0x10),
    ("u16", ("Copy", ("M", -1), ("I", 0x8000), None), 0x0),
    ("u8", ("Copy", ("M", 0), ("T", 4), None), 0x10),
    ("u8", ("Add", ("M", 1), ("T", 4), ("T", 6)), 0x50),
    ("u32", ("Sub", ("M", 15), ("T", 11), ("M", -16)), 0xffff),
]


def _loc(l, w):
    k, v = l
    if k == "M":
        return "Loc::Mem(%d)" % v
    if k == "T":
        return "Loc::Tmp(%d)" % v
    return "Loc::Imm(%d%s)" % (v, w)


def _instr(inst, w):
    op, d, a, b = inst
    if op == "Copy":
        return "Instr::Copy(%s, %s)" % (_loc(d, w), _loc(a, w))
    return "Instr::%s(%s, %s, %s)" % (op, _loc(d, w), _loc(a, w), _loc(b, w))


def _name(w, inst, live):
    def part(l):
        if l is None:
            return ""
        k, v = l
        return "_%s%s" % (k.lower(), ("m%d" % -v) if v < 0 else ("%x" % v if k == "I" else str(v)))
    op, d, a, b = inst
    return "u6_%s%s%s%s_l%x_%s" % (op.lower(), part(d), part(a), part(b), live, w)


def _candidates(w, rnd, per_pattern):
    out = []
    for op, dk, ak, bk, cons in PATTERNS:
        def vals(k):
            if k == "M":
                return [("M", v) for v in MEMS]
            if k == "T":
                return [("T", v) for v in TMPS]
            if k == "I":
                return [("I", v) for v in IMMS[w]]
            return [None]
        combos = []
        for d in vals(dk):
            for a in vals(ak):
                for b in vals(bk):
                    if cons == "d==a" and d != a:
                        continue
                    combos.append((op, d, a, b))
        rnd.shuffle(combos)
        # always keep an "all operands equal where kinds allow" and a stack-heavy combination
        picks = combos[:per_pattern]
        for inst in picks:
            ops = [x[1] for x in inst[1:] if x is not None and x[0] == "T" and x[1] < 16]
            opmask = 0
            for t in ops:
                opmask |= 1 << t
            live = rnd.choice([0x0000, 0xffff, opmask, opmask & ~(1 << ops[0]) if ops else 0])
            out.append((w, inst, live))
    return out


def _byte_hazard():
    """u8 instances of every Copy/Add/Sub arm with a temporary, with the temporaries 4 and 5 (rsi, rdi):
    their low bytes sil / dil are only addressable with a REX prefix -- without it the same
    encoding names dh / bh.  Deterministic (no seed): the hazard is a fixed property of x86-64."""
    out = []
    for op, dk, ak, bk, cons in PATTERNS:
        if op == "Mul" or "T" not in (dk, ak, bk):
            continue
        for first, second, live_all in ((4, 5, True), (5, 4, False)):
            ts = [first, second]
            used = []

            def val(k):
                if k == "M":
                    return ("M", 1 if not used else -1)
                if k == "I":
                    return ("I", 255 if live_all else 2)
                if k == "T":
                    t = ts[len([u for u in used if u[0] == "T"]) % 2]
                    return ("T", t)
                return None
            d = val(dk)
            used.append(d)
            a = val(ak) if not (cons == "d==a") else d
            used.append(a)
            b = val(bk)
            opmask = 0
            for x in (d, a, b):
                if x is not None and x[0] == "T":
                    opmask |= 1 << x[1]
            live = 0xffff if live_all else (opmask & ~(1 << d[1]) if d[0] == "T" else opmask)
            out.append(("u8", (op, d, a, b), live))
    return out


def _addr_hazard():
    """Register-register address forms (`lea dst, [a + b]`) with r12 / r13 as base or index: r12
    shares its low bits with rsp (a SIB byte is mandatory), r13 with rbp (mod = 00 means disp32, so
    a zero disp8 must be emitted).  Deterministic: a fixed property of the x86-64 encoding."""
    out = []
    for a, b in ((1, 4), (4, 1), (0, 4), (4, 0), (1, 0), (0, 1), (1, 7), (7, 1)):
        for d in (("T", 6), ("T", 12), ("M", 1)):
            live = 0xffff if (a + b) % 2 else (1 << a) | (1 << b)
            out.append(("u64", ("Add", d, ("T", a), ("T", b)), live))
        out.append(("u8", ("Add", ("T", 6), ("T", a), ("T", b)), (1 << a) | (1 << b)))
        out.append(("u32", ("Sub", ("T", 7), ("T", a), ("T", b)), 0xffff))
    return out


def _disp_hazard():
    """Cell offsets whose BYTE displacement sits on the disp8 / disp32 boundary (+127 / +128 /
    -128 / -129) at the narrower widths (the sampled offsets put 8-byte cells there)."""
    out = []
    for w, per in (("u8", 1), ("u16", 2), ("u32", 4)):
        for off in (127 // per, 128 // per, -128 // per, -128 // per - 1):
            out.append((w, ("Copy", ("M", off), ("T", 4), None), 0x10))
            out.append((w, ("Add", ("T", 6), ("M", off), ("I", 1)), 0x0))
    return out


def _instances(tier, seed):
    rnd = random.Random(seed)
    inst = list(MUST) + _byte_hazard() + _addr_hazard() + _disp_hazard()
    if tier == "quick":
        inst += _candidates("u64", rnd, 1)
        inst += _candidates("u8", rnd, 1)
        inst += rnd.sample(_candidates("u16", rnd, 1), 6) + rnd.sample(_candidates("u32", rnd, 1), 6)
    else:
        for w, n in (("u64", 12), ("u8", 8), ("u16", 3), ("u32", 3)):
            inst += _candidates(w, rnd, n)
    seen, res = set(), []
    for w, i, live in inst:
        n = _name(w, i, live)
        if n not in seen:
            seen.add(n)
            res.append((n, w, i, live))
    return res


BRANCHES = [("u6_brz_%s%s" % (w, "_limited" if lim else ""), w, True, lim) for w in ("u8", "u64") for lim in (False, True)] + \
           [("u6_brnz_%s%s" % (w, "_limited" if lim else ""), w, False, lim) for w in ("u16", "u32") for lim in (False, True)]
IOCALLS = [("u6_%s_%s_%s_l%x" % ("inp" if inp else "out", w, ("m%d" % -i) if i < 0 else str(i), live), w, inp, i, live)
           for (w, inp, i, live) in (("u8", False, 0, 0x0), ("u8", False, 1, 0x7ff), ("u64", False, -17, 0x10), ("u16", False, 2, 0x3f0),
                                     ("u32", False, 16, 0x7f0), ("u64", False, 0, 0x550),
                                     ("u8", True, 0, 0x0), ("u8", True, -1, 0x7ff), ("u64", True, 16, 0x20), ("u16", True, 2, 0x3f0),
                                     ("u32", True, -16, 0x7f0), ("u64", True, 0, 0x2a0))]
MOVSAFE = [("u6_mov_safe_%s_%s_l%x" % (w, ("m%d" % -sh) if sh < 0 else str(sh), live), w, sh, mn, mx, live)
           for (w, sh, mn, mx, live) in (("u8", 1, 0, 0, 0x0), ("u8", -1, -1, 2, 0x7ff), ("u64", 3, -2, 5, 0x50), ("u64", -4, -3, 0, 0x2a0),
                                         ("u16", 2, -1, 1, 0x10), ("u32", -1, -2, 2, 0x7f0), ("u16", -300, -1, 1, 0x3f0), ("u32", 1000, 0, 3, 0x0))]
FRAMES = [("u6_frame_t%d_%s" % (t, "term" if term else "end"), t, term) for t in (0, 1, 2, 13) for term in (False, True)]
MOVS = [("u6_mov_unsafe_%s_%s" % (w, ("m%d" % -s) if s < 0 else str(s)), w, s) for w, s in (("u8", 1), ("u8", -1), ("u64", 3), ("u64", -200), ("u16", 100), ("u32", -2))]


def _cases(tier, seed):
    """every harness as (name, width, rust expr building the instruction, live, temps, limited, safe, min, max, checker call)"""
    cs = []
    for n, w, i, live in _instances(tier, seed):
        cs.append((n, w, _instr(i, w), live, 13, False, True, "-WCELLS", "WCELLS", "check_arith::<%s, _>(&CODE_%s, run_%s, %s, 0x%x)" % (w, n.upper(), n, _instr(i, w), live)))
    for n, w, on_zero, lim in BRANCHES:
        cond = -3 if lim else 2
        ins = "Instr::%s(%d, 1)" % ("BrZ" if on_zero else "BrNZ", cond)
        cs.append((n, w, ins, 0, 2, lim, True, "-WCELLS", "WCELLS", "check_branch::<%s, _>(&CODE_%s, run_%s, %s, %d, %s)" % (
            w, n.upper(), n, "true" if on_zero else "false", cond, "true" if lim else "false")))
    for n, w, sh in MOVS:
        cs.append((n, w, "Instr::Mov(%d)" % sh, 0xffff, 2, False, False, "-1", "1", "check_mov_unsafe::<%s, _>(&CODE_%s, run_%s, %d)" % (w, n.upper(), n, sh)))
    for n, w, sh, mn, mx, live in MOVSAFE:
        cs.append((n, w, "Instr::Mov(%d)" % sh, live, 13, False, True, str(mn), str(mx),
                   "check_mov_safe::<%s, _>(&CODE_%s, run_%s, %d, %d, %d, 0x%x)" % (w, n.upper(), n, sh, mn, mx, live)))
    for n, w, inp, idx, live in IOCALLS:
        cs.append((n, w, "Instr::%s(%d)" % ("Inp" if inp else "Out", idx), live, 13, False, True, "-WCELLS", "WCELLS",
                   "check_io_call::<%s, _>(&CODE_%s, run_%s, %s, %d, 0x%x)" % (w, n.upper(), n, "true" if inp else "false", idx, live)))
    return cs


DUMP_TMPL = """// native stage of unit u6: print the bytes the REAL emit_program produces for every instance,
// and their decoding into micro-ops (x86-64 subset semantics, decoder half)
#![allow(dead_code)]
use super::*;
use crate::bc::{Instr, Loc, Program};
VERIF_U6_MODEL
fn dump<C: crate::CellType>(name: &str, instr: Instr<C>, live: u16, temps: usize, limited: bool, safe: bool, min: isize, max: isize) {
    let branch = matches!(instr, Instr::BrZ(..) | Instr::BrNZ(..) | Instr::Inp(..) | Instr::Out(..));
    let prog = Program::<C> { temps, min_accessed: min, max_accessed: max, live: vec![live], insts: vec![instr] };
    let mut cg = CodeGen { locations: Vec::new(), reloc_br: Vec::new(), reloc_term: Vec::new(), term: 0, code: Vec::new() };
    let r = std::panic::catch_unwind(std::panic::AssertUnwindSafe(|| {
        cg.emit_program(&prog, limited, safe);
        if branch {
            // distinguishable targets: branch target = locations[1] = end of the code, termination = end + 64
            cg.term = cg.code.len() + 64;
            cg.fix_relocations();
        }
    }));
    match r {
        Ok(()) => {
            println!("U6BYTES {} {}", name, cg.code.iter().map(|b| format!("{:02x}", b)).collect::<Vec<_>>().join(""));
            let mut uops = decoder::decode(&cg.code);
            // resolve `mov rax, <address>; call rax` against the addresses of the three runtime shims
            let shims = [hpbf_context_extend::<C> as usize as u64, hpbf_context_input::<C> as usize as u64, hpbf_context_output::<C> as usize as u64];
            let mut last_rax: Option<(u64, usize)> = None;
            for k in 0..uops.len() {
                match uops[k] {
                    Uop::MovImm64 { reg: 0, imm } => { last_rax = Some((imm, k)); }
                    Uop::RmI { op: 2, ea: Opnd::Reg(0), imm, sz } => { last_rax = Some((if sz == 4 { imm as u32 as u64 } else { imm as u64 }, usize::MAX)); }
                    Uop::CallShim { .. } => {
                        let which = match last_rax { Some((a, _)) => shims.iter().position(|&x| x == a).map(|p| p as u8).unwrap_or(255), None => 255 };
                        // the address itself is irrelevant to the model (and differs from run to run): normalise it
                        if let Some((_, at)) = last_rax {
                            if at != usize::MAX && which != 255 {
                                uops[at] = Uop::MovImm64 { reg: 0, imm: 0 };
                            }
                        }
                        uops[k] = Uop::CallShim { which };
                    }
                    _ => {}
                }
            }
            println!("U6UOPS {} {}", name, uops.iter().map(|u| format!("{:?}", u)).collect::<Vec<_>>().join(" ;; "));
        }
        Err(_) => println!("U6BYTES {} PANIC", name),
    }
}
/// prologue + marker + epilogue for `temps` temporaries; `via_term`: the body jumps to `term`
fn dump_frame(name: &str, temps: usize, via_term: bool) {
    let mut cg = CodeGen { locations: Vec::new(), reloc_br: Vec::new(), reloc_term: Vec::new(), term: 0, code: Vec::new() };
    cg.emit_prologue(temps);
    let body_at = cg.code.len();
    cg.emit_epilogue(temps);
    // machine state at the end of the prologue is what the body runs in: rsp_delta there must be
    // a multiple of 16 away from the call-time alignment (checked by the call contracts); here the
    // whole frame is run: prologue, then either fall into the epilogue or enter at `term`
    let mut uops = decoder::decode(&cg.code[..body_at]);
    let epi = decoder::decode(&cg.code[body_at..]);
    if via_term {
        let skip = decoder::decode(&cg.code[body_at..cg.term]).len();
        uops.extend(epi.into_iter().skip(skip));
    } else {
        uops.extend(epi);
    }
    println!("U6BYTES {} {}", name, cg.code.iter().map(|b| format!("{:02x}", b)).collect::<Vec<_>>().join(""));
    println!("U6UOPS {} {}", name, uops.iter().map(|u| format!("{:?}", u)).collect::<Vec<_>>().join(" ;; "));
    // frame alignment: after the prologue rsp must be 16-byte aligned (entry rsp = 8 mod 16)
    let pushes = 6; let aligned = if temps % 2 == 0 { temps + 1 } else { temps };
    println!("U6FRAME {} {}", name, (8 + 8 * pushes + 8 * aligned) % 16);
}

#[test]
fn verif_u6_dump() {
VERIF_U6_BODY
VERIF_U6_FRAME_CALLS
}

// ---- CPU conformance of the trusted x86 specification: the same instances, executed as REAL machine
// ---- code by the real JIT on three operand sets each, compared with the bytecode semantics
use crate::runtime::Context;
use crate::CellType;
use crate::exec::{BaseJitCompiler, Executable};
VERIF_U6_REPLAY_FNS
#[test]
fn verif_u6_cpu() {
VERIF_U6_REPLAY_CALLS
}
"""


def prepare(repo, tier, seed):
    """Stage 1 (native, plain cargo): run the real emitter on every instance and collect the bytes.
    Stage 2: generate the Kani harness, which (a) PROVES that emit_program produces exactly those
    bytes and (b) runs the x86 semantics on them as a constant array (so that CBMC only explores the
    encodings actually present)."""
    import re
    import subprocess
    cases = _cases(tier, seed)
    body = "\n".join("    dump::<%s>(\"%s\", %s, 0x%x, %d, %s, %s, %s, %s);" % (
        w, n, ins, live, temps, "true" if lim else "false", "true" if safe else "false", mn, mx)
        for n, w, ins, live, temps, lim, safe, mn, mx, call in cases)
    dump_path = os.path.join(repo, "src/exec/basejit/verif_u6_dump.rs")
    model = open(os.path.join(HERE, "u6_model.rs.in")).read()
    fns = REPLAY_TMPL.split("use crate::CellType;\n", 1)[1].split("#[test]")[0].replace("VERIF_CEX_TMPS", "").replace("VERIF_CEX_MEMS", "")
    calls = "\n".join('    println!("U6CPUSTART %s");\n    replay::<%s>("%s", %s, 0x%x);' % (n, w, n, ins, live)
                      for n, w, ins, live, temps, lim, safe, mn, mx, call in cases if "check_arith" in call)
    frame_calls = "\n".join('    dump_frame("%s", %d, %s);' % (n, t, "true" if term else "false") for n, t, term in FRAMES)
    open(dump_path, "w").write(DUMP_TMPL.replace("VERIF_U6_BODY", body).replace("VERIF_U6_FRAME_CALLS", frame_calls).replace("VERIF_U6_MODEL", model)
                               .replace("VERIF_U6_REPLAY_FNS", fns).replace("VERIF_U6_REPLAY_CALLS", calls))
    with open(os.path.join(repo, "src/exec/basejit/codegen.rs"), "a") as fh:
        fh.write('\n#[cfg(all(test, hpbf_verif_dump))]\n#[path = "%s"]\nmod verif_u6_dump;\n' % dump_path)
    env = dict(os.environ, CARGO_NET_OFFLINE="true", RUSTFLAGS="--cfg hpbf_verif_dump",
               CARGO_TARGET_DIR=os.path.join(repo, "target_native"))
    # (--exact: the module is called verif_u6_dump, too, so a plain filter would also select the CPU test)
    p = subprocess.run(["cargo", "test", "--offline", "--lib", "exec::basejit::codegen::verif_u6_dump::verif_u6_dump", "--", "--exact", "--nocapture", "--test-threads", "1"],
                       cwd=repo, env=env, capture_output=True, text=True, timeout=1500)
    # the CPU run executes generated machine code: its own process, so that a crash of wrong code
    # cannot take the dump with it
    pc = subprocess.run(["cargo", "test", "--offline", "--lib", "exec::basejit::codegen::verif_u6_dump::verif_u6_cpu", "--", "--exact", "--nocapture", "--test-threads", "1"],
                        cwd=repo, env=env, capture_output=True, text=True, timeout=1500)
    global CPU_RESULTS
    CPU_RESULTS = {}
    for mm in re.finditer(r"U6REPLAY (\S+) (OK|MISMATCH.*)", pc.stdout):
        if CPU_RESULTS.get(mm.group(1), "OK") == "OK":
            CPU_RESULTS[mm.group(1)] = mm.group(2)
    started = re.findall(r"U6CPUSTART (\S+)", pc.stdout)
    if started and started[-1] not in CPU_RESULTS and ("signal" in (pc.stdout + pc.stderr) or pc.returncode < 0):
        CPU_RESULTS[started[-1]] = "MISMATCH the real machine code crashed the process (%s)" % ((pc.stderr or "").strip().split("\n")[-1][:120])
    got = dict(re.findall(r"U6BYTES (\S+) (\S+)", p.stdout))
    uops = dict(re.findall(r"U6UOPS (\S+) (.*)", p.stdout))
    global UNMODELLED
    UNMODELLED = {n: got.get(n, "") for n, u in uops.items() if "Unsupported" in u}
    import shutil
    shutil.rmtree(os.path.join(repo, "target_native"), ignore_errors=True)
    frame_align = dict(re.findall(r"U6FRAME (\S+) (\d+)", p.stdout))
    if len(got) < len(cases) + len(FRAMES):
        raise RuntimeError("native dump stage failed (%d of %d instances): %s" % (len(got), len(cases), (p.stdout + p.stderr)[-800:]))
    out = [open(os.path.join(HERE, "u6_jit.rs.in")).read().replace("VERIF_U6_MODEL", model)
           .replace("VERIF_PARAM_PROVE_EMISSION", "false")]
    # thorough tier: for a subset (the MUST list, the branches, the moves) ALSO prove inside Kani
    # that the real emitter produces exactly the stage-1 bytes (48-200 s each)
    prove = set()
    if tier == "thorough":
        # (the narrower arithmetic instances of the MUST list exhaust CBMC's memory -- > 40 GB -- in
        # the symbolic execution of the emitter; the 64-bit ones take seconds)
        prove = {_name(w, i, live) for w, i, live in MUST if w == "u64"} | {b[0] for b in BRANCHES} | {m[0] for m in MOVS}
    for n, w, ins, live, temps, lim, safe, mn, mx, call in cases:
        hexs = got[n]
        if hexs == "PANIC":
            # the selector has no arm for this instance (unimplemented!): state it as a failing obligation
            out.append("#[kani::proof]\nfn %s() {\n    assert!(false, \"emit_program panics (unimplemented!) on this instruction\");\n}\n" % n)
            continue
        bs = [hexs[k:k + 2] for k in range(0, len(hexs), 2)]
        steps = ["    m.exec(%s);" % u for u in uops.get(n, "Unsupported").split(" ;; ")]
        out.append("const CODE_%s: [u8; %d] = [%s];\nfn run_%s(m: &mut M) {\n%s\n}\n#[kani::proof]\n#[kani::unwind(%d)]\nfn %s() {\n    %s;\n}\n" % (
            n.upper(), len(bs), ", ".join("0x" + b for b in bs), n, "\n".join(steps), max(len(bs) + 3, 18), n, call))
        if n in prove:
            kind = "true" if "check_branch" in call else "false"
            out.append("#[kani::proof]\n#[kani::unwind(%d)]\nfn %s_emits() {\n    prove_emission::<%s>(&CODE_%s, %s, 0x%x, %d, %s, %s, %s, %s, %s);\n}\n" % (
                max(len(bs) + 3, 18), n, w, n.upper(), ins, live, temps, "true" if lim else "false", "true" if safe else "false", mn, mx, kind))
    for n, t, term in FRAMES:
        steps = ["    m.exec(%s);" % u for u in uops.get(n, "Unsupported").split(" ;; ")]
        out.append("fn run_%s(m: &mut M) {\n%s\n}\n#[kani::proof]\n#[kani::unwind(20)]\nfn %s() {\n    assert!(%s == 0, \"frame leaves rsp misaligned\");\n    check_frame::<0>(run_%s, %d, %s);\n}\n" % (
            n, "\n".join(steps), n, frame_align.get(n, "1"), n, t, "true" if term else "false"))
    return [{"src": "\n".join(out), "dest": "src/exec/basejit/verif_u6_jit.rs",
             "mod_in": "src/exec/basejit/codegen.rs", "mod_name": "verif_u6", "params": {}}]


def overlay(tier, seed=0):
    raise RuntimeError("u6 is a two-stage unit: use prepare()")


CLAUSE = ("x86_run(emitted bytes, s) == bc_step(instr, abstract(s)) for ALL machine states s: destination cell exact / destination "
          "temporary modulo 2^width; every other tape byte, every live register temporary, every stack temporary, rbx/rbp/rsp and the "
          "context unchanged; only modelled encodings, no byte outside the window; no relocation emitted")


def harnesses(tier, seed):
    t = 420 if tier == "quick" else 900
    hs = []
    insts = _instances(tier, seed)
    # the deterministic encoding-hazard families are C03's business only (they add nothing to the
    # "no byte outside the window" clause C06 takes from the sampled instances)
    hazard = {_name(w, i, live) for w, i, live in _byte_hazard() + _addr_hazard() + _disp_hazard()} - {_name(w, i, live) for w, i, live in MUST}
    for n, w, i, live in insts:
        hs.append({"name": MOD + n, "function": "basejit::CodeGen::emit_program [%s, live=0x%x] + the asm.rs emitters it selects" % (_instr(i, w), live),
                   "clause": CLAUSE, "properties": ["C03"] if n in hazard else ["C03", "C06"],
                   "bounded_by": "operands enumerated (%d instances in the %s tier); window of 41 cells, 16 stack slots" % (len(insts), tier),
                   "complete_over": "all register / stack / tape / context contents and flags (symbolic)", "timeout": t,
                   # the contract function is shared by all destinations / tiers: the other arm is dead
                   "allow_unreachable": ["tmp_get(&m, t) & wm == val & wm", "cell_get::<C>(&m, i) == val & wm", "bad destination", "not an arithmetic instruction",
                                         "(x & wm == va & wm",  # the operand clause of the Mul contract (dead for Copy / Add / Sub)
                                         "cg.code.len() == expect.len()", "cg.code[i] == expect[i]"]})
    for n, w, on_zero, lim in BRANCHES:
        hs.append({"name": MOD + n, "function": "basejit::CodeGen::{emit_program (BrZ/BrNZ arm), emit_limit_check, fix_relocations} <%s>" % w,
                   "clause": "jumps to locations[target] iff the condition cell is (non-)zero, else falls through; limited: jumps to the termination relocation iff budget < 2, else budget -= 1; nothing else changes (rax scratch)",
                   "properties": ["C03", "C07"], "bounded_by": "one branch, concrete condition offset",
                   "complete_over": "all machine states", "timeout": t,
                   "allow_unreachable": ["m.jumped == Some(64)", "m.ctx[3] == budget - 1", "cg.code.len() == expect.len()", "cg.code[i] == expect[i]"]})
    if tier == "thorough":
        for n in [_name(w, i, live) for w, i, live in MUST if w == "u64"] + [b[0] for b in BRANCHES] + [m[0] for m in MOVS]:
            hs.append({"name": MOD + n + "_emits", "function": "basejit::CodeGen::{emit_program, fix_relocations} + asm.rs emitters (symbolic execution of the real emitter)",
                       "clause": "the real emitter appends exactly the bytes the native stage recorded for this instance",
                       "properties": ["C03"], "bounded_by": "one concrete instruction", "complete_over": "-", "timeout": 1500})
    for n, tt, term in FRAMES:
        hs.append({"name": MOD + n, "function": "basejit::CodeGen::{emit_prologue, emit_epilogue} temps=%d (%s)" % (tt, "termination path" if term else "normal end"),
                   "clause": "on return: rax = %d, callee-saved registers (rbx rbp r12-r15) and rsp restored, rsp 16-byte aligned inside the body" % (0 if term else 1),
                   "properties": ["C03"], "bounded_by": "temps in {0,1,2,13}", "complete_over": "all machine states", "timeout": t})
    for n, w, sh, mn, mx, live in MOVSAFE:
        hs.append({"name": MOD + n, "function": "basejit::CodeGen::{emit_program (Mov arm, safe == true), emit_pre_call, emit_post_call} <%s> shift=%d window=[%d,%d] live=0x%x" % (w, sh, mn, mx, live),
                   "clause": "pointer advances by shift cells; far edge of the window tested against the context's current bounds; inside: nothing else; outside: offset := probe index, hpbf_context_extend(cxt, 0, 1) called with live temporaries saved and rsp aligned, pointer re-based as buffer' + (offset' - probe) * cell size; no tape byte written",
                   "properties": ["C06", "C03"], "bounded_by": "shift / window / live mask enumerated",
                   "complete_over": "all machine states, all tape geometries (buffer, size, pointer), all (buffer', size', offset') the callee may leave", "timeout": t,
                   "allow_unreachable": ["cg.code.len() == expect.len()", "cg.code[i] == expect[i]"]})
    for n, w, inp, idx, live in IOCALLS:
        hs.append({"name": MOD + n, "function": "basejit::CodeGen::{emit_program (%s arm), emit_pre_call, emit_post_call} <%s> live=0x%x" % ("Inp" if inp else "Out", w, live),
                   "clause": "live caller-saved temporaries pushed/popped symmetrically and preserved across the runtime call; rsp 16-byte aligned at the call and restored; shim receives (context, cell value | cell address); jumps to the termination relocation iff the shim reports failure, else falls through; the code writes no tape byte",
                   "properties": ["C03", "C08", "C06"], "bounded_by": "cell offsets and live masks enumerated",
                   "complete_over": "all machine states, all values the callee may leave in caller-saved registers", "timeout": t,
                   "allow_unreachable": ["cg.code.len() == expect.len()", "cg.code[i] == expect[i]", "m.call_rsi =="]})
    for n, w, s in MOVS:
        hs.append({"name": MOD + n, "function": "basejit::CodeGen::emit_program (Mov arm, safe == false) <%s>" % w,
                   "clause": "unchecked move: rbp += shift * cell size and nothing else (no probe, no call, no other register or memory touched)",
                   "properties": ["C10", "C03"], "bounded_by": "shift values enumerated", "complete_over": "all machine states", "timeout": t,
                   "allow_unreachable": ["cg.code.len() == expect.len()", "cg.code[i] == expect[i]"]})
    return hs


# ---------------------------------------------------------------------------------- native replay
REPLAY_TMPL = """// native replay of unit u6 (plain cargo test, no verifier): run the REAL machine code produced by
// the REAL BaseJitCompiler for a bytecode program that sets up the operands, executes the instruction
// under test and stores its result, and compare with the bytecode semantics.
#![allow(dead_code, unused_mut)]
use super::*;
use crate::bc::{Instr, Loc, Program};
use crate::runtime::Context;
use crate::CellType;

fn val<C: CellType>(seed: u64, k: u64) -> C {
    // distinct, width-filling operand values
    C::from_u64((seed.wrapping_mul(0x9E3779B97F4A7C15).wrapping_add(k.wrapping_mul(0xD1B54A32D192ED03))) | 1)
}

/// operand values of the verifier's counterexample (temporary index -> value, cell index -> value);
/// empty: three built-in operand sets are used
static CEX_TMPS: &[(usize, u64)] = &[VERIF_CEX_TMPS];
static CEX_MEMS: &[(isize, u64)] = &[VERIF_CEX_MEMS];

fn replay<C: CellType>(name: &str, instr: Instr<C>, live: u16) {
    let (dst, srcs): (Loc<C>, Vec<Loc<C>>) = match instr {
        Instr::Copy(d, a) => (d, vec![a]),
        Instr::Add(d, a, b) | Instr::Sub(d, a, b) | Instr::Mul(d, a, b) => (d, vec![a, b]),
        _ => panic!(),
    };
    let mut bad = 0;
    for seed in 1..4u64 {
        let mut cxt = Context::<C>::without_io();
        let mut insts: Vec<Instr<C>> = Vec::new();
        // every temporary mentioned gets a defined value, loaded from its own cell -20..-5
        let mut tmps: Vec<usize> = Vec::new();
        for l in srcs.iter().chain(std::iter::once(&dst)) {
            if let Loc::Tmp(t) = l {
                if !tmps.contains(t) {
                    tmps.push(*t);
                }
            }
        }
        let tval = |t: usize| match CEX_TMPS.iter().find(|x| x.0 == t) {
            Some(x) if seed == 1 => C::from_u64(x.1),
            _ => val::<C>(seed, 100 + t as u64),
        };
        let mval = |i: isize| match CEX_MEMS.iter().find(|x| x.0 == i) {
            Some(x) if seed == 1 => C::from_u64(x.1),
            _ => val::<C>(seed, 1000 + (i + 40) as u64),
        };
        for &t in &tmps {
            cxt.memory.write(-20 + t as isize - 40, tval(t));
            insts.push(Instr::Copy(Loc::Tmp(t), Loc::Mem(-20 + t as isize - 40)));
        }
        for l in srcs.iter().chain(std::iter::once(&dst)) {
            if let Loc::Mem(i) = l {
                cxt.memory.write(*i, mval(*i));
            }
        }
        let get = |l: &Loc<C>| match l {
            Loc::Mem(i) | Loc::MemZero(i) => mval(*i),
            Loc::Tmp(t) => tval(*t),
            Loc::Imm(v) => *v,
        };
        let expect = match instr {
            Instr::Copy(_, a) => get(&a),
            Instr::Add(_, a, b) => get(&a).wrapping_add(get(&b)),
            Instr::Sub(_, a, b) => get(&a).wrapping_add(get(&b).wrapping_neg()),
            Instr::Mul(_, a, b) => get(&a).wrapping_mul(get(&b)),
            _ => panic!(),
        };
        let n_setup = insts.len();
        insts.push(instr);
        let result_cell = match dst {
            Loc::Mem(i) => i,
            Loc::Tmp(t) => {
                insts.push(Instr::Copy(Loc::Mem(30), Loc::Tmp(t)));
                30
            }
            _ => panic!(),
        };
        let mut lives = vec![0xffffu16; insts.len()];
        lives[n_setup] = live;
        let prog = Program::<C> { temps: 13, min_accessed: -70, max_accessed: 40, live: lives, insts };
        let jit = BaseJitCompiler { bytecode: prog };
        jit.execute(&mut cxt).unwrap();
        let got = cxt.memory.read(result_cell);
        if got != expect {
            bad += 1;
            println!("U6REPLAY {} MISMATCH seed={} got={:?} expected={:?}", name, seed, got, expect);
        }
    }
    if bad == 0 {
        println!("U6REPLAY {} OK", name);
    }
}

/// Limit-check replay: a counted loop with exactly four budget checks (one BrZ, three BrNZ) on the
/// REAL JIT in limited mode.  Contract of the check (unit u6): stop iff budget < 2, else budget -= 1;
/// hence `finished` iff the budget is at least 5, and then 4 units are consumed.
fn replay_limit<C: CellType>(name: &str, cex_budget: Option<u64>) {
    let mut budgets: Vec<u64> = vec![1, 2, 4, 5, 6, 1 << 32, (1 << 32) + 1, 5 << 32, (u64::MAX >> 2) + 1];
    if let Some(b) = cex_budget {
        budgets.insert(0, b);
    }
    let mut bad = 0;
    for b in budgets {
        let insts: Vec<Instr<C>> = vec![
            Instr::Copy(Loc::Mem(0), Loc::Imm(C::from_u8(3))),
            Instr::BrZ(0, 3),
            Instr::Add(Loc::Mem(0), Loc::Mem(0), Loc::Imm(C::NEG_ONE)),
            Instr::BrNZ(0, -1),
        ];
        let prog = Program::<C> { temps: 2, min_accessed: 0, max_accessed: 0, live: vec![0; 4], insts };
        let jit = BaseJitCompiler { bytecode: prog };
        let mut cxt = Context::<C>::without_io();
        cxt.budget = b as usize;
        let fin = jit.execute_limited(&mut cxt).unwrap();
        let want = b >= 5;
        if fin != want || (fin && (cxt.budget as u64 != b - 4 || cxt.memory.read(0) != C::ZERO)) {
            bad += 1;
            println!("U6REPLAY {} MISMATCH budget={:#x} finished={} expected={} budget_left={:#x} cell={:?}", name, b, fin, want, cxt.budget, cxt.memory.read(0));
        }
    }
    if bad == 0 {
        println!("U6REPLAY {} OK", name);
    }
}

/// I/O call replay: the REAL JIT runs a program that loads every temporary, performs the Inp / Out
/// under test with the given live mask, and stores the temporaries again; once with working I/O
/// (live temporaries must survive the runtime call) and once with failing I/O (the run must stop
/// cleanly before the stores -- a crash of this process is a reproduction, too).
fn replay_io<C: CellType>(name: &str, is_inp: bool, cell: isize, live: u16) {
    let mut bad = 0;
    for fail in [false, true] {
        let mut insts: Vec<Instr<C>> = Vec::new();
        for t in 0..13usize {
            insts.push(Instr::Copy(Loc::Tmp(t), Loc::Imm(C::from_u8(100 + t as u8))));
        }
        insts.push(Instr::Copy(Loc::Mem(cell), Loc::Imm(C::from_u8(65))));
        let at = insts.len();
        insts.push(if is_inp { Instr::Inp(cell) } else { Instr::Out(cell) });
        for t in 0..13usize {
            insts.push(Instr::Copy(Loc::Mem(40 + t as isize), Loc::Tmp(t)));
        }
        let mut lives = vec![0xffffu16; insts.len()];
        lives[at] = live;
        let prog = Program::<C> { temps: 13, min_accessed: -70, max_accessed: 60, live: lives, insts };
        let jit = BaseJitCompiler { bytecode: prog };
        let mut out: Vec<u8> = Vec::new();
        let mut none: [u8; 0] = [];
        {
            let input: Option<Box<dyn std::io::Read>> = if fail { None } else { Some(Box::new(&[42u8][..])) };
            let output: Option<Box<dyn std::io::Write>> = if fail { Some(Box::new(&mut none[..])) } else { Some(Box::new(&mut out)) };
            let mut cxt = Context::<C>::new(input, output);
            jit.execute(&mut cxt).unwrap();
            for t in 0..13usize {
                let got = cxt.memory.read(40 + t as isize);
                let want = if fail { C::ZERO } else { C::from_u8(100 + t as u8) };
                if (fail || t >= 11 || live & (1 << t) != 0) && got != want {
                    bad += 1;
                    println!("U6REPLAY {} MISMATCH fail={} temporary {} stored as {:?}, expected {:?}", name, fail, t, got, want);
                }
            }
            let c = cxt.memory.read(cell);
            let want = if is_inp && !fail { C::from_u8(42) } else { C::from_u8(65) };
            if c != want {
                bad += 1;
                println!("U6REPLAY {} MISMATCH fail={} cell {:?}, expected {:?}", name, fail, c, want);
            }
        }
        if !is_inp && !fail && out != [65u8] {
            bad += 1;
            println!("U6REPLAY {} MISMATCH output {:?}, expected [65]", name, out);
        }
    }
    if bad == 0 {
        println!("U6REPLAY {} OK", name);
    }
}

#[test]
fn verif_u6_replay() {
%s
}
"""


UNMODELLED = {}


def post_process(harness_results):
    """CPU conformance of the trusted x86 specification: an instance the specification accepts
    (Kani discharged) but whose REAL machine code computes a wrong value on the CPU means the
    specification is wrong -- undecided, not a verdict about hpbf."""
    for h in harness_results:
        short = h["name"].split("::")[-1]
        cpu = CPU_RESULTS.get(short)
        if short in UNMODELLED and h["status"] == "failed" and (cpu is None or cpu == "OK"):
            # the emitted bytes contain an encoding the decoder does not model: a limit of the x86
            # subset specification, not a verdict about hpbf -- unless the real machine code is wrong
            h["status"] = "undecided"
            h["reason"] = ("emitted code uses an encoding outside the modelled x86-64 subset (bytes %s); %s"
                           % (UNMODELLED[short][:80], "the real machine code gave the bc_step result on the built-in operand sets" if cpu == "OK" else "no CPU run for this kind of instance"))
        if cpu is not None:
            h["cpu_run"] = cpu[:160]
            if h["status"] == "discharged" and cpu != "OK":
                h["status"] = "undecided"
                h["reason"] = "x86 specification disagrees with the CPU: model accepts, real machine code gives " + cpu[:200]
    return harness_results


def native_replay(ob, tier, seed):
    """Replay a failing arithmetic instance on the REAL JIT (real emitter, prologue/epilogue, mmap,
    native execution of the generated machine code)."""
    import re
    import subprocess
    import shutil
    import sys
    sys.path.insert(0, os.path.join(os.path.dirname(HERE), "..", "tools"))
    from common import Scratch
    short = ob["harness"].split("::")[-1]
    pv = ob.get("playback_values") or []

    def first(n):
        return next((x["bytes"] for x in pv if len(x["bytes"]) == n), None)
    lim_cases = [c for c in _cases(tier, seed) if c[0] == short and "check_branch" in c[9] and c[5]]
    if lim_cases:
        n, w = lim_cases[0][0], lim_cases[0][1]
        ctx = first(32)
        cex_b = int.from_bytes(bytes(ctx[24:32]), "little") if ctx else None
        body = '    replay_limit::<%s>("%s", %s);' % (w, n, "Some(%d)" % cex_b if cex_b is not None else "None")
        return _run_replay(body, "", "", "real BaseJitCompiler in limited mode on a counted loop with four budget checks; budget of the verifier's counterexample: %s; plus built-in budgets around 2, 5 and 2^32 (another program than the harness's single branch: a passing replay never demotes the violation)" % (hex(cex_b) if cex_b is not None else "-"), False)
    io_cases = [c for c in IOCALLS if c[0] == short]
    if io_cases:
        n, w, inp, idx, live = io_cases[0]
        return _run_replay('    replay_io::<%s>("%s", %s, %d, 0x%x);' % (w, n, "true" if inp else "false", idx, live), "", "",
                           "real BaseJitCompiler: all 13 temporaries loaded, the %s under test with its live mask, temporaries stored; run with working and with failing I/O (the contract is over the code sequence, so the replay uses fixed operand values; a passing replay therefore never demotes the violation)" % ("Inp" if inp else "Out"), False)
    cases = [c for c in _cases(tier, seed) if c[0] == short and "check_arith" in c[9]]
    if not cases:
        return None
    n, w, ins, live, temps, lim, safe, mn, mx, call = cases[0]
    # operand values of the verifier's counterexample: new_machine() draws r[16], stk[26], havoc[9],
    # ext[3], mem[41], ctx[4], zf, cf, mul_p, mul_f; Kani's playback lists one byte vector per draw (found by length)
    cex_t, cex_m = "", ""
    pv = ob.get("playback_values") or []
    def first(n):
        return next((x["bytes"] for x in pv if len(x["bytes"]) == n), None)
    if first(128) and first(8 * 26) and first(8 * 41):
        def q(bs, k):
            return int.from_bytes(bytes(bs[8 * k:8 * k + 8]), "little")
        regs, stk, mem = first(128), first(8 * 26), first(8 * 41)
        tmp_reg = [12, 13, 14, 15, 6, 7, 2, 8, 9, 10, 11]
        bits = int(w[1:])
        nbytes = bits // 8
        ts = sorted({int(x) for x in re.findall(r"Loc::Tmp\((\d+)\)", ins)})
        ms = sorted({int(x) for x in re.findall(r"Loc::Mem\((-?\d+)\)", ins)})
        cex_t = ", ".join("(%d, %d)" % (t, q(regs, tmp_reg[t]) if t < 11 else q(stk, 10 + t)) for t in ts)
        def cell(i):
            lo = i * nbytes + 20 * 8
            word = q(mem, lo // 8)
            return (word >> ((lo % 8) * 8)) & ((1 << bits) - 1)
        cex_m = ", ".join("(%d, %d)" % (i, cell(i)) for i in ms)
    return _run_replay('    replay::<%s>("%s", %s, 0x%x);' % (w, n, ins, live), cex_t, cex_m,
                       "real BaseJitCompiler, native machine code; operand values of the verifier's counterexample: tmps [%s] cells [%s]; plus two built-in operand sets" % (cex_t, cex_m),
                       bool(cex_t or cex_m))


def _run_replay(body, cex_t, cex_m, what, cex_used):
    import re
    import subprocess
    import sys
    sys.path.insert(0, os.path.join(os.path.dirname(HERE), "..", "tools"))
    from common import Scratch
    with Scratch("u6replay") as sc:
        path = os.path.join(sc.repo, "src/exec/basejit/verif_u6_replay.rs")
        open(path, "w").write((REPLAY_TMPL % body).replace("VERIF_CEX_TMPS", cex_t).replace("VERIF_CEX_MEMS", cex_m))
        with open(os.path.join(sc.repo, "src/exec/basejit/mod.rs"), "a") as fh:
            fh.write('\n#[cfg(all(test, hpbf_verif_replay))]\n#[path = "%s"]\nmod verif_u6_replay;\n' % path)
        env = dict(os.environ, CARGO_NET_OFFLINE="true", RUSTFLAGS="--cfg hpbf_verif_replay",
                   CARGO_TARGET_DIR=os.path.join(sc.path, "target_native"))
        p = subprocess.run(["cargo", "test", "--offline", "--lib", "verif_u6_replay", "--", "--nocapture", "--test-threads", "1"],
                           cwd=sc.repo, env=env, capture_output=True, text=True, timeout=1500)
        lines = re.findall(r"U6REPLAY .*", p.stdout)
        reproduced = any("MISMATCH" in l for l in lines) or "signal" in (p.stdout + p.stderr)
        passed = any(l.endswith(" OK") for l in lines)
        return {"cmd": "RUSTFLAGS=--cfg hpbf_verif_replay cargo test --lib verif_u6_replay (%s)" % what,
                "counterexample_operands_used": cex_used,
                "reproduced_on_real_code": reproduced, "passed_on_real_code": passed and not reproduced,
                "exit": p.returncode, "output_tail": "\n".join(lines)[-1200:] or (p.stdout + p.stderr)[-800:]}
