"""U2 `tape` — per-operation contracts of runtime::Memory / Context over the abstract view (C09, C17, C06, C08)."""
UNIT = "u2_tape"
MOD = "runtime::verif_u2::"
KANI_FLAGS = ["-Z", "stubbing"]
TRUSTED = [
    "Kani's model of the Rust allocator (alloc/dealloc/realloc as CBMC objects with layout checks)",
    "C17: `GlobalAlloc::alloc_zeroed` modelled as 'zeroed block of the requested layout or null' (harness stub); `handle_alloc_error` modelled as non-returning (kani::assume(false) in the stub)",
    "C08: Box<dyn Read/Write> objects answering Ok(0) | Ok(1) | Err once (symbolic)",
]


def _params(tier):
    if tier == "quick":
        return {"K": 4, "K2": 6, "R": 5, "UNWIND": 6}
    return {"K": 8, "K2": 12, "R": 10, "UNWIND": 10}


def overlay(tier):
    return [{"src": "u2_tape.rs", "dest": "src/verif_u2_tape.rs", "mod_in": "src/runtime.rs",
             "mod_name": "verif_u2", "params": _params(tier)}]


OPS = {
    "new": ("Memory::{new, default}", "empty, reads 0 everywhere (any offset)", ["C09"], False),
    "read": ("Memory::read", "returns view(o) for every o in +-2^62; buffer/size/offset unchanged (reads never allocate)", ["C09", "C06", "C04"], False),
    "check": ("Memory::check", "check(o) <=> 0 <= offset+o < size; nothing changes", ["C09", "C06"], False),
    "mov": ("Memory::mov", "view'(i) == view(i+d) for every d in +-2^62; never allocates", ["C09", "C06", "C04"], False),
    "write": ("Memory::{write, write_out_of_bounds, make_accessible}", "view' == view[o := x] at a fresh symbolic index; wf'; target in buffer afterwards; all three growth placements covered", ["C09", "C06", "C04"], True),
    "write_oob": ("Memory::write_out_of_bounds", "view' == view[o := x]; wf'", ["C09", "C06"], True),
    "make_accessible": ("Memory::make_accessible", "view' == view (contents and logical pointer preserved); wf'; every q in [s,e) accessible afterwards; no reallocation when already accessible; never shrinks and every previously accessible cell stays accessible; growth below / above / both covered", ["C09", "C06"], True),
    "ptr_api": ("Memory::{current_ptr, check_ptr, set_current_ptr}", "check_ptr(current_ptr()+k) <=> check(k); set_current_ptr(current_ptr()+k) has the effect of mov(k) -- for pointers inside the block or one past its end (out-of-object pointers: not decided, Kani pointer-model artefact)", ["C09", "C06"], False),
    "drop": ("Memory::drop", "frees exactly the owned block with its allocation layout (Kani dealloc checks)", ["C09", "C06"], False),
}


def harnesses(tier, seed):
    p = _params(tier)
    bound = "size <= %d cells, pointer within %d cells of the buffer, offsets within +-%d" % (p["K"], p["K2"], p["R"])
    t = 600 if tier == "quick" else 1500
    widths = (8, 64) if tier == "quick" else (8, 16, 32, 64)
    hs = []
    for op, (fn, clause, props, alloc) in OPS.items():
        for w in widths:
            hs.append({"name": "%su2_%s_u%d" % (MOD, op, w), "function": fn + " <u%d>" % w, "clause": clause,
                       "properties": props, "bounded_by": bound if op != "new" else None,
                       "complete_over": "all contents, all pointer positions within the bound, histories unbounded (arbitrary pre-state)",
                       "timeout": t})
    for op, fn, clause in (
            ("make_accessible_oom", "Memory::make_accessible under a may-fail allocator",
             "if the call returns: wf, view preserved, range accessible, and NO growth request was refused (the k-th request fails for a symbolic set of k: a refusal is never survived, not even by a retry); no access through a null or freed block (Kani pointer checks)"),
            ("write_oom", "Memory::{write, write_out_of_bounds} under a may-fail allocator",
             "if the call returns: wf, cell written, no request was refused")):
        for w in (8, 64):
            hs.append({"name": "%su2_%s_u%d" % (MOD, op, w), "function": fn + " <u%d>" % w, "clause": clause,
                       "properties": ["C17"], "bounded_by": bound,
                       "complete_over": "whichever growth request fails (arbitrary pre-state = any earlier history), any direction",
                       "timeout": t})
    hs.append({"name": MOD + "u2_context_input", "function": "Context::input",
               "clause": "None <=> source absent or Err; Some(0) at end of input; Some(b) on a byte; exactly one 1-byte read; memory and budget untouched",
               "properties": ["C08", "C04"], "bounded_by": None, "complete_over": "all reader outcomes, all bytes (loop-free)", "timeout": t})
    hs.append({"name": MOD + "u2_context_output", "function": "Context::output",
               "clause": "None <=> sink returns Ok(0) or Err; Some(()) when written or no sink; exactly one write of [value]",
               "properties": ["C08", "C04"], "bounded_by": None, "complete_over": "all writer outcomes, all bytes (loop-free)", "timeout": t})
    hs.append({"name": MOD + "u2_context_new", "function": "Context::{new, without_io}",
               "clause": "empty memory, zero budget, no I/O objects", "properties": ["C08", "C09"], "bounded_by": None,
               "complete_over": "-", "timeout": t})
    return hs
