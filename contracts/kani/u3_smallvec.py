"""U3 `smallvec` — per-operation contracts of src/smallvec.rs against a Vec model + drop accounting (C18)."""
UNIT = "u3_smallvec"
MOD = "smallvec::verif_u3::"
KANI_FLAGS = []
TRUSTED = [
    "std Vec / slice (heap-side operations delegate to Vec::{push,clear,retain,retain_mut,dedup,into_iter}; slice::sort)",
    "Kani's model of the Rust allocator and of MaybeUninit/ManuallyDrop/union field access",
]


def _params(tier):
    L = 3 if tier == "quick" else 6
    # loops over element identities run up to 2L (clone doubles them) + 1
    return {"L": L, "HEAP_LENS": ", ".join(str(i) for i in range(L + 1)), "UNWIND": max(L + 4, 2 * L + 3)}


def overlay(tier):
    return [{"src": "u3_smallvec.rs", "dest": "src/verif_u3_smallvec.rs", "mod_in": "src/smallvec.rs",
             "mod_name": "verif_u3", "params": _params(tier)}]


# op -> (real functions under contract, contract in words)
OPS = {
    "push": ("SmallVec::{push, push_promote, push_to_vec}", "contents == old contents ++ [e]; inline kept while it fits, promoted exactly at size == N; no element dropped; drop-once after final drop"),
    "extend": ("SmallVec::extend", "contents == old ++ iterator items (2 items: crosses the inline/heap boundary from every inline length); drop-once"),
    "clear": ("SmallVec::clear", "contents empty; representation kept; every old element dropped exactly once by the call; vector usable afterwards"),
    "clear_u32": ("SmallVec::clear (needs_drop == false path)", "contents empty; usable afterwards"),
    "retain": ("SmallVec::retain", "contents == [x in old | pred(x)] in order; every rejected element dropped exactly once by the call; kept ones alive; drop-once after final drop"),
    "retain_mut": ("SmallVec::retain_mut", "as retain, with the predicate's mutation applied to kept elements"),
    "dedup": ("SmallVec::dedup", "contents == old with consecutive equal runs collapsed to their first element; removed ones dropped exactly once"),
    "slices": ("SmallVec::{as_slice, as_slice_mut, deref, deref_mut, index, index_mut, into_iter(&), into_iter(&mut)}", "read views equal the contents; writes through the mutable views change exactly the addressed element"),
    "clone": ("SmallVec::clone", "clone has equal payloads in order with fresh identities (one Clone::clone per element); original untouched; inline iff len <= N; both drop-once"),
    "hash": ("SmallVec::hash", "feeds the hasher exactly what the slice of the contents feeds"),
    "into_iter": ("SmallVec::into_iter (by value), SmallVecIntoIter::{next, drop}", "yields the contents in order; abandoning after a symbolic number of next() calls drops every remaining element exactly once and no yielded one"),
    "into_iter_nth": ("SmallVecIntoIter::nth (Iterator default method or an override; used by skip / step_by)", "nth(k) drops the k skipped elements, yields element k (None past the end); whatever is left is dropped with the iterator: drop-once in every case"),
    "into_iter_u32": ("SmallVec::into_iter (by value, needs_drop == false)", "yields the contents in order, then None"),
    "drop": ("SmallVec::drop", "every element dropped exactly once; heap block released (Kani memory checks)"),
    "sort": ("SmallVec::deref_mut + slice::sort", "result is sorted and a permutation of the old contents"),
}
SINGLE = {
    "new": ("SmallVec::{new, default}", "empty, inline representation"),
    "with_capacity": ("SmallVec::with_capacity", "empty; inline iff requested capacity <= N (capacity symbolic in 0..N+2)"),
    "with": ("SmallVec::with", "contents == [e]"),
    "with_all": ("SmallVec::with_all", "contents == the array, for array lengths 0..3 (below, at, above both capacities)"),
    "from_vec": ("SmallVec::from_vec", "contents == the Vec, heap representation, nothing dropped"),
    "cmp": ("SmallVec::{cmp, partial_cmp, eq}", "equal to lexicographic comparison of the contents, independent of representation (10 shape pairs per N incl. inline-vs-heap with equal contents)"),
}


def harnesses(tier, seed):
    L = _params(tier)["L"]
    hs = []
    for op, (fn, clause) in OPS.items():
        for n in (1, 2):
            for rep in ("inline", "heap"):
                if op == "sort" and rep == "heap" and False:
                    continue
                bounded = None
                if rep == "heap":
                    bounded = "heap-side length <= %d" % (3 if op == "sort" else L)
                hs.append({"name": "%su3_%s_n%d_%s" % (MOD, op, n, rep), "function": fn,
                           "clause": "[N=%d, %s representation, every length%s] %s" % (
                               n, rep, " 0..N" if rep == "inline" else " 0..%d" % L, clause),
                           "properties": ["C18"], "bounded_by": bounded,
                           "complete_over": "all element values / masks / cut-off points (symbolic)",
                           "allow_unreachable": (["LEN + 1 <= N"] if rep == "heap" else []) +
                                                (["sv.as_slice()[i] <= sv.as_slice()[i + 1]"] if (op == "sort" and n == 1 and rep == "inline") else []),
                           "timeout": 400 if tier == "quick" else 900})
    for op, (fn, clause) in SINGLE.items():
        for n in (1, 2):
            hs.append({"name": "%su3_%s_n%d" % (MOD, op, n), "function": fn, "clause": "[N=%d] %s" % (n, clause),
                       "properties": ["C18"],
                       "bounded_by": ("Vec length <= %d" % L) if op == "from_vec" else ("lengths <= 3" if op == "cmp" else None),
                       "complete_over": "all element values (symbolic)",
                       "timeout": 400 if tier == "quick" else 900})
    return hs
