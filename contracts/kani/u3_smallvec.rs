// U3 `smallvec` — Kani contracts for src/smallvec.rs (property C18).
//
// Overlaid as `#[cfg(kani)] mod verif_u3;` at the end of src/smallvec.rs of a scratch copy of
// /repo, so `super::*` reaches the private fields of the REAL `SmallVec`.  Every harness has the
// same shape:
//
//   pre-state  := ANY well-formed SmallVec<T, N> (inline with size <= N and the first `size` slots
//                 initialised, or heap with a Vec of length <= L), contents symbolic, built by
//                 writing the fields directly -- never by calling the API under test.  The SHAPE
//                 (representation, length) is enumerated concretely inside each harness (a
//                 symbolic shape costs 60-300 s per harness, a concrete one 1-3 s); the element
//                 values, masks, indices and iteration cut-off points are symbolic;
//   call the real operation with symbolic arguments;
//   post       := `as_slice()` equals the model (a plain array + length) after the same
//                 operation, element by element, AND (drop accounting) every element identity is
//                 dropped exactly once by the time the vector / iterator has been dropped.
//
// Because the pre-state is arbitrary, one verified step is an inductive step: operation
// histories are unbounded.  What is bounded: heap-side length L (const below) -- labelled bounded.
// The inline representation (size <= N <= 2) is finite and therefore completely covered.
#![allow(dead_code, unused_unsafe, static_mut_refs)]

use super::*;
use std::mem::{ManuallyDrop, MaybeUninit};

/// Heap-side length bound; substituted by the runner per tier (quick 3, thorough 6).
const L: usize = VERIF_PARAM_L;
/// Maximum number of element identities alive in one harness.
const IDS: usize = 12;

static mut DROPS: [u8; IDS] = [0; IDS];
static mut NEXT_ID: u8 = 0;

/// Element with a destructor: identity `id`, payload `val`.
pub struct D {
    id: u8,
    val: u8,
}

impl D {
    fn fresh(val: u8) -> D {
        unsafe {
            let id = NEXT_ID;
            assert!((id as usize) < IDS);
            NEXT_ID += 1;
            D { id, val }
        }
    }
}

impl Drop for D {
    fn drop(&mut self) {
        unsafe {
            // Saturating so that a double drop shows up as `2`, not as an overflow report.
            if DROPS[self.id as usize] < 200 {
                DROPS[self.id as usize] += 1;
            }
        }
    }
}

impl Clone for D {
    fn clone(&self) -> Self {
        D::fresh(self.val)
    }
}

impl PartialEq for D {
    fn eq(&self, other: &Self) -> bool {
        self.val == other.val
    }
}


/// Model of the contents: (id, val) pairs.
#[derive(Clone, Copy)]
struct Model {
    len: usize,
    ids: [u8; L + 3],
    vals: [u8; L + 3],
}

impl Model {
    fn new() -> Model {
        Model { len: 0, ids: [0; L + 3], vals: [0; L + 3] }
    }
    fn push(&mut self, id: u8, val: u8) {
        self.ids[self.len] = id;
        self.vals[self.len] = val;
        self.len += 1;
    }
}

fn reset() {
    unsafe {
        DROPS = [0; IDS];
        NEXT_ID = 0;
    }
}

/// A well-formed `SmallVec<D, N>` of the given SHAPE with symbolic contents, plus its model.
/// Built by writing the fields directly.
fn shape_sv<const N: usize, const HEAP: bool, const LEN: usize>() -> (SmallVec<D, N>, Model) {
    let mut model = Model::new();
    if HEAP {
        let mut v: Vec<D> = Vec::with_capacity(LEN);
        let mut i = 0;
        while i < LEN {
            let d = D::fresh(kani::any());
            model.push(d.id, d.val);
            v.push(d);
            i += 1;
        }
        (
            SmallVec { size: N as u8 + 1, data: SmallVecData { vec: ManuallyDrop::new(v) } },
            model,
        )
    } else {
        let mut sv: SmallVec<D, N> = SmallVec {
            size: 0,
            data: SmallVecData { arr: unsafe { MaybeUninit::uninit().assume_init() } },
        };
        let mut i = 0;
        while i < LEN {
            let d = D::fresh(kani::any());
            model.push(d.id, d.val);
            unsafe {
                (*sv.data.arr)[i].write(d);
            }
            i += 1;
        }
        sv.size = LEN as u8;
        (sv, model)
    }
}

/// Same for `u32` elements (no destructor: exercises the `needs_drop == false` paths).
fn shape_sv_u32<const N: usize, const HEAP: bool, const LEN: usize>() -> (SmallVec<u32, N>, [u32; L + 3]) {
    let mut vals = [0u32; L + 3];
    if HEAP {
        let mut v: Vec<u32> = Vec::with_capacity(LEN);
        let mut i = 0;
        while i < LEN {
            let x: u32 = kani::any();
            vals[i] = x;
            v.push(x);
            i += 1;
        }
        (
            SmallVec { size: N as u8 + 1, data: SmallVecData { vec: ManuallyDrop::new(v) } },
            vals,
        )
    } else {
        let mut sv: SmallVec<u32, N> = SmallVec {
            size: 0,
            data: SmallVecData { arr: unsafe { MaybeUninit::uninit().assume_init() } },
        };
        let mut i = 0;
        while i < LEN {
            let x: u32 = kani::any();
            vals[i] = x;
            unsafe {
                (*sv.data.arr)[i].write(x);
            }
            i += 1;
        }
        sv.size = LEN as u8;
        (sv, vals)
    }
}

/// Representation invariant of the real type.
fn wf<T, const N: usize>(sv: &SmallVec<T, N>) -> bool {
    (sv.size as usize) <= N + 1
}

/// `as_slice()` equals the model, element by element (identity and value).
fn same<const N: usize>(sv: &SmallVec<D, N>, m: &Model) -> bool {
    let s = sv.as_slice();
    if s.len() != m.len {
        return false;
    }
    let mut i = 0;
    while i < m.len {
        if s[i].id != m.ids[i] || s[i].val != m.vals[i] {
            return false;
        }
        i += 1;
    }
    true
}

/// Every identity handed out so far has been dropped exactly once.
fn all_dropped_once() -> bool {
    unsafe {
        let mut i = 0;
        while i < NEXT_ID as usize {
            if DROPS[i] != 1 {
                return false;
            }
            i += 1;
        }
        true
    }
}

/// Identities in the model are alive (never dropped), all others dropped exactly once.
fn drops_match(m: &Model) -> bool {
    unsafe {
        let mut id = 0;
        while id < NEXT_ID as usize {
            let mut alive = false;
            let mut k = 0;
            while k < m.len {
                if m.ids[k] as usize == id {
                    alive = true;
                }
                k += 1;
            }
            let want = if alive { 0 } else { 1 };
            if DROPS[id] != want {
                return false;
            }
            id += 1;
        }
        true
    }
}

/// `harness!(name, unwind, body, N, HEAP, [len, len, ...])` -- one Kani harness that runs the
/// contract `body` once per concrete shape.
macro_rules! harness {
    ($name:ident, $unwind:literal, $body:ident, $n:literal, $heap:literal, [$($len:literal),*]) => {
        #[kani::proof]
        #[kani::unwind($unwind)]
        fn $name() {
            $( reset(); $body::<$n, $heap, $len>(); )*
        }
    };
}

/// The four representation classes of one operation: N in {1, 2} x {inline, heap}.
macro_rules! op_harnesses {
    ($body:ident, $unwind:literal, $i1:ident, $h1:ident, $i2:ident, $h2:ident) => {
        harness!($i1, $unwind, $body, 1, false, [0, 1]);
        harness!($h1, $unwind, $body, 1, true, [VERIF_PARAM_HEAP_LENS]);
        harness!($i2, $unwind, $body, 2, false, [0, 1, 2]);
        harness!($h2, $unwind, $body, 2, true, [VERIF_PARAM_HEAP_LENS]);
    };
}

// ------------------------------------------------------------------ constructors

fn c_new<const N: usize>() {
    let sv: SmallVec<D, N> = SmallVec::new();
    assert!(wf(&sv) && sv.as_slice().len() == 0 && (sv.size as usize) <= N);
    drop(sv);
    assert!(all_dropped_once());
    let sv: SmallVec<D, N> = SmallVec::default();
    assert!(wf(&sv) && sv.as_slice().len() == 0);
}
#[kani::proof]
#[kani::unwind(4)]
fn u3_new_n1() {
    c_new::<1>();
}
#[kani::proof]
#[kani::unwind(4)]
fn u3_new_n2() {
    c_new::<2>();
}

fn c_with_capacity<const N: usize>() {
    let cap: usize = kani::any();
    kani::assume(cap <= N + 2);
    let sv: SmallVec<D, N> = SmallVec::with_capacity(cap);
    assert!(wf(&sv) && sv.as_slice().len() == 0);
    // representation: inline iff the request fits
    assert!(((sv.size as usize) <= N) == (cap <= N));
    drop(sv);
    assert!(all_dropped_once());
}
#[kani::proof]
#[kani::unwind(4)]
fn u3_with_capacity_n1() {
    c_with_capacity::<1>();
}
#[kani::proof]
#[kani::unwind(4)]
fn u3_with_capacity_n2() {
    c_with_capacity::<2>();
}

fn c_from_vec<const N: usize, const HEAP: bool, const LEN: usize>() {
    let mut m = Model::new();
    let mut v = Vec::new();
    let mut i = 0;
    while i < LEN {
        let d = D::fresh(kani::any());
        m.push(d.id, d.val);
        v.push(d);
        i += 1;
    }
    let sv: SmallVec<D, N> = SmallVec::from_vec(v);
    assert!(wf(&sv) && same(&sv, &m));
    assert!(drops_match(&m));
    drop(sv);
    assert!(all_dropped_once());
}
harness!(u3_from_vec_n1, VERIF_PARAM_UNWIND, c_from_vec, 1, true, [VERIF_PARAM_HEAP_LENS]);
harness!(u3_from_vec_n2, VERIF_PARAM_UNWIND, c_from_vec, 2, true, [VERIF_PARAM_HEAP_LENS]);

fn c_with<const N: usize>() {
    let d = D::fresh(kani::any());
    let mut m = Model::new();
    m.push(d.id, d.val);
    let sv: SmallVec<D, N> = SmallVec::with(d);
    assert!(wf(&sv) && same(&sv, &m) && drops_match(&m));
    drop(sv);
    assert!(all_dropped_once());
}
#[kani::proof]
#[kani::unwind(5)]
fn u3_with_n1() {
    c_with::<1>();
}
#[kani::proof]
#[kani::unwind(5)]
fn u3_with_n2() {
    c_with::<2>();
}

fn c_with_all<const N: usize>() {
    // M = 0, 1, 2, 3 : below, at and above both inline capacities
    {
        reset();
        let m = Model::new();
        let sv: SmallVec<D, N> = SmallVec::with_all([]);
        assert!(wf(&sv) && same(&sv, &m) && drops_match(&m));
        drop(sv);
        assert!(all_dropped_once());
    }
    {
        reset();
        let mut m = Model::new();
        let a = D::fresh(kani::any());
        m.push(a.id, a.val);
        let sv: SmallVec<D, N> = SmallVec::with_all([a]);
        assert!(wf(&sv) && same(&sv, &m) && drops_match(&m));
        drop(sv);
        assert!(all_dropped_once());
    }
    {
        reset();
        let mut m = Model::new();
        let a = D::fresh(kani::any());
        let b = D::fresh(kani::any());
        m.push(a.id, a.val);
        m.push(b.id, b.val);
        let sv: SmallVec<D, N> = SmallVec::with_all([a, b]);
        assert!(wf(&sv) && same(&sv, &m) && drops_match(&m));
        drop(sv);
        assert!(all_dropped_once());
    }
    {
        reset();
        let mut m = Model::new();
        let a = D::fresh(kani::any());
        let b = D::fresh(kani::any());
        let c = D::fresh(kani::any());
        m.push(a.id, a.val);
        m.push(b.id, b.val);
        m.push(c.id, c.val);
        let sv: SmallVec<D, N> = SmallVec::with_all([a, b, c]);
        assert!(wf(&sv) && same(&sv, &m) && drops_match(&m));
        drop(sv);
        assert!(all_dropped_once());
    }
}
#[kani::proof]
#[kani::unwind(6)]
fn u3_with_all_n1() {
    c_with_all::<1>();
}
#[kani::proof]
#[kani::unwind(6)]
fn u3_with_all_n2() {
    c_with_all::<2>();
}

// ------------------------------------------------------------------ push / extend / clear

fn c_push<const N: usize, const HEAP: bool, const LEN: usize>() {
    let (mut sv, mut m) = shape_sv::<N, HEAP, LEN>();
    let d = D::fresh(kani::any());
    m.push(d.id, d.val);
    sv.push(d);
    assert!(wf(&sv));
    assert!(same(&sv, &m));
    assert!(drops_match(&m));
    // representation: stays inline while it fits, promoted exactly when it does not
    if !HEAP {
        assert!(((sv.size as usize) <= N) == (LEN + 1 <= N));
    }
    drop(sv);
    assert!(all_dropped_once());
}
op_harnesses!(c_push, VERIF_PARAM_UNWIND, u3_push_n1_inline, u3_push_n1_heap, u3_push_n2_inline, u3_push_n2_heap);

fn c_extend<const N: usize, const HEAP: bool, const LEN: usize>() {
    let (mut sv, mut m) = shape_sv::<N, HEAP, LEN>();
    // two more elements: crosses the inline/heap boundary from every inline length
    let a = D::fresh(kani::any());
    let b = D::fresh(kani::any());
    m.push(a.id, a.val);
    m.push(b.id, b.val);
    sv.extend([a, b].into_iter());
    assert!(wf(&sv) && same(&sv, &m) && drops_match(&m));
    drop(sv);
    assert!(all_dropped_once());
}
op_harnesses!(c_extend, VERIF_PARAM_UNWIND, u3_extend_n1_inline, u3_extend_n1_heap, u3_extend_n2_inline, u3_extend_n2_heap);

fn c_clear<const N: usize, const HEAP: bool, const LEN: usize>() {
    let (mut sv, _m) = shape_sv::<N, HEAP, LEN>();
    sv.clear();
    assert!(wf(&sv) && sv.as_slice().len() == 0);
    // representation is kept (a heap vector keeps its allocation)
    assert!(((sv.size as usize) > N) == HEAP);
    // every element dropped exactly once, already now
    assert!(all_dropped_once());
    // and usable afterwards
    let d = D::fresh(kani::any());
    let (id, val) = (d.id, d.val);
    sv.push(d);
    assert!(sv.as_slice().len() == 1 && sv.as_slice()[0].id == id && sv.as_slice()[0].val == val);
    drop(sv);
    assert!(all_dropped_once());
}
op_harnesses!(c_clear, VERIF_PARAM_UNWIND, u3_clear_n1_inline, u3_clear_n1_heap, u3_clear_n2_inline, u3_clear_n2_heap);

fn c_clear_u32<const N: usize, const HEAP: bool, const LEN: usize>() {
    let (mut sv, _vals) = shape_sv_u32::<N, HEAP, LEN>();
    sv.clear();
    assert!(wf(&sv) && sv.as_slice().len() == 0);
    sv.push(7);
    assert!(sv.as_slice().len() == 1 && sv.as_slice()[0] == 7);
}
op_harnesses!(c_clear_u32, VERIF_PARAM_UNWIND, u3_clear_u32_n1_inline, u3_clear_u32_n1_heap, u3_clear_u32_n2_inline, u3_clear_u32_n2_heap);

// ------------------------------------------------------------------ retain / retain_mut / dedup

fn c_retain<const N: usize, const HEAP: bool, const LEN: usize>() {
    let (mut sv, m) = shape_sv::<N, HEAP, LEN>();
    // the predicate consults a symbolic mask indexed by element identity
    let mask: u16 = kani::any();
    let mut want = Model::new();
    let mut i = 0;
    while i < m.len {
        if (mask >> m.ids[i]) & 1 == 1 {
            want.push(m.ids[i], m.vals[i]);
        }
        i += 1;
    }
    sv.retain(|d| (mask >> d.id) & 1 == 1);
    assert!(wf(&sv));
    assert!(same(&sv, &want));
    // rejected elements are dropped (exactly once) by the call itself
    assert!(drops_match(&want));
    drop(sv);
    assert!(all_dropped_once());
}
op_harnesses!(c_retain, VERIF_PARAM_UNWIND, u3_retain_n1_inline, u3_retain_n1_heap, u3_retain_n2_inline, u3_retain_n2_heap);

fn c_retain_mut<const N: usize, const HEAP: bool, const LEN: usize>() {
    let (mut sv, m) = shape_sv::<N, HEAP, LEN>();
    let mask: u16 = kani::any();
    let mut want = Model::new();
    let mut i = 0;
    while i < m.len {
        if (mask >> m.ids[i]) & 1 == 1 {
            want.push(m.ids[i], m.vals[i].wrapping_add(1));
        }
        i += 1;
    }
    sv.retain_mut(|d| {
        d.val = d.val.wrapping_add(1);
        (mask >> d.id) & 1 == 1
    });
    assert!(wf(&sv));
    assert!(same(&sv, &want));
    assert!(drops_match(&want));
    drop(sv);
    assert!(all_dropped_once());
}
op_harnesses!(c_retain_mut, VERIF_PARAM_UNWIND, u3_retain_mut_n1_inline, u3_retain_mut_n1_heap, u3_retain_mut_n2_inline, u3_retain_mut_n2_heap);

fn c_dedup<const N: usize, const HEAP: bool, const LEN: usize>() {
    let (mut sv, m) = shape_sv::<N, HEAP, LEN>();
    let mut want = Model::new();
    let mut i = 0;
    while i < m.len {
        if want.len == 0 || want.vals[want.len - 1] != m.vals[i] {
            want.push(m.ids[i], m.vals[i]);
        }
        i += 1;
    }
    sv.dedup();
    assert!(wf(&sv));
    assert!(same(&sv, &want));
    assert!(drops_match(&want));
    drop(sv);
    assert!(all_dropped_once());
}
op_harnesses!(c_dedup, VERIF_PARAM_UNWIND, u3_dedup_n1_inline, u3_dedup_n1_heap, u3_dedup_n2_inline, u3_dedup_n2_heap);

// ------------------------------------------------------------------ views

fn c_slices<const N: usize, const HEAP: bool, const LEN: usize>() {
    let (mut sv, vals) = shape_sv_u32::<N, HEAP, LEN>();
    // as_slice / deref / index / by-ref iteration agree with the model
    assert!(sv.as_slice().len() == LEN && sv.len() == LEN);
    let mut k = 0;
    for x in &sv {
        assert!(*x == vals[k]);
        k += 1;
    }
    assert!(k == LEN);
    if LEN > 0 {
        let i: usize = kani::any();
        kani::assume(i < LEN);
        assert!(sv.as_slice()[i] == vals[i]);
        assert!(sv[i] == vals[i]);
        assert!((*sv)[i] == vals[i]);
        // as_slice_mut / index_mut / by-mut iteration write through, and only there
        let x: u32 = kani::any();
        sv[i] = x;
        let j: usize = kani::any();
        kani::assume(j < LEN);
        assert!(sv.as_slice()[j] == if j == i { x } else { vals[j] });
        sv.as_slice_mut()[i] = vals[i];
        assert!(sv.as_slice()[j] == vals[j]);
        for y in &mut sv {
            *y = y.wrapping_add(1);
        }
        assert!(sv.as_slice().len() == LEN);
        assert!(sv.as_slice()[j] == vals[j].wrapping_add(1));
    }
    assert!(wf(&sv));
}
op_harnesses!(c_slices, VERIF_PARAM_UNWIND, u3_slices_n1_inline, u3_slices_n1_heap, u3_slices_n2_inline, u3_slices_n2_heap);

// ------------------------------------------------------------------ clone / eq / cmp / hash

fn c_clone<const N: usize, const HEAP: bool, const LEN: usize>() {
    let (sv, m) = shape_sv::<N, HEAP, LEN>();
    let ids_before = unsafe { NEXT_ID };
    let cl = sv.clone();
    assert!(wf(&cl) && wf(&sv));
    // original untouched
    assert!(same(&sv, &m));
    // clone has the same payloads, in order, with fresh identities
    assert!(cl.as_slice().len() == m.len);
    if LEN > 0 {
        let i: usize = kani::any();
        kani::assume(i < LEN);
        assert!(cl.as_slice()[i].val == m.vals[i]);
        assert!(cl.as_slice()[i].id >= ids_before);
    }
    assert!(unsafe { NEXT_ID } as usize == ids_before as usize + LEN);
    // representation: inline iff it fits
    assert!(((cl.size as usize) <= N) == (LEN <= N));
    drop(cl);
    assert!(drops_match(&m));
    drop(sv);
    assert!(all_dropped_once());
}
op_harnesses!(c_clone, VERIF_PARAM_UNWIND, u3_clone_n1_inline, u3_clone_n1_heap, u3_clone_n2_inline, u3_clone_n2_heap);

struct RecHasher {
    acc: u64,
    n: u64,
}
impl Hasher for RecHasher {
    fn finish(&self) -> u64 {
        self.acc ^ self.n
    }
    fn write(&mut self, bytes: &[u8]) {
        // order- and length-sensitive without a loop over the bytes (keeps the unwinding small)
        self.n = self.n.wrapping_mul(31).wrapping_add(bytes.len() as u64);
        if bytes.len() > 0 {
            self.acc = self.acc.wrapping_mul(131).wrapping_add(bytes[0] as u64);
        }
    }
    fn write_u32(&mut self, x: u32) {
        self.acc = self.acc.wrapping_mul(131).wrapping_add(x as u64);
        self.n = self.n.wrapping_mul(31).wrapping_add(4);
    }
    fn write_usize(&mut self, x: usize) {
        self.acc = self.acc.wrapping_mul(131).wrapping_add(x as u64);
        self.n = self.n.wrapping_mul(31).wrapping_add(8);
    }
}

/// `cmp`/`eq`/`partial_cmp` against the lexicographic order of the contents, for two vectors of
/// concrete shapes (HA, LA) and (HB, LB).
fn c_cmp<const N: usize, const HA: bool, const LA: usize, const HB: bool, const LB: usize>() {
    let (a, av) = shape_sv_u32::<N, HA, LA>();
    let (b, bv) = shape_sv_u32::<N, HB, LB>();
    let mut ord = Ordering::Equal;
    let mut i = 0;
    while i < LA && i < LB && ord == Ordering::Equal {
        if av[i] < bv[i] {
            ord = Ordering::Less;
        } else if av[i] > bv[i] {
            ord = Ordering::Greater;
        }
        i += 1;
    }
    if ord == Ordering::Equal {
        ord = LA.cmp(&LB);
    }
    assert!(a.cmp(&b) == ord);
    assert!(a.partial_cmp(&b) == Some(ord));
    assert!((a == b) == (ord == Ordering::Equal));
}
macro_rules! cmp_harness {
    ($name:ident, $n:literal, [$(($ha:literal, $la:literal, $hb:literal, $lb:literal)),*]) => {
        #[kani::proof]
        #[kani::unwind(14)]
        fn $name() {
            $( c_cmp::<$n, $ha, $la, $hb, $lb>(); )*
        }
    };
}
// every pair of representations, lengths below / at / above each other and the capacity
cmp_harness!(u3_cmp_n1, 1, [(false, 0, false, 0), (false, 0, false, 1), (false, 1, false, 1), (false, 1, true, 1),
    (true, 1, false, 1), (false, 1, true, 2), (true, 2, false, 1), (true, 0, false, 0), (true, 2, true, 2), (true, 2, true, 3)]);
cmp_harness!(u3_cmp_n2, 2, [(false, 0, false, 0), (false, 1, false, 2), (false, 2, false, 2), (false, 2, true, 2),
    (true, 2, false, 2), (false, 2, true, 3), (true, 3, false, 2), (true, 0, false, 0), (true, 3, true, 3), (true, 1, false, 2)]);

fn c_hash<const N: usize, const HEAP: bool, const LEN: usize>() {
    let (a, av) = shape_sv_u32::<N, HEAP, LEN>();
    let mut h1 = RecHasher { acc: 0, n: 0 };
    a.hash(&mut h1);
    let mut h2 = RecHasher { acc: 0, n: 0 };
    av[..LEN].hash(&mut h2);
    assert!(h1.finish() == h2.finish());
}
op_harnesses!(c_hash, VERIF_PARAM_UNWIND, u3_hash_n1_inline, u3_hash_n1_heap, u3_hash_n2_inline, u3_hash_n2_heap);

// ------------------------------------------------------------------ by-value iteration

fn c_into_iter<const N: usize, const HEAP: bool, const LEN: usize>() {
    let (sv, m) = shape_sv::<N, HEAP, LEN>();
    // number of `next()` calls before the iterator is abandoned: symbolic, may exceed the length
    let take: usize = kani::any();
    kani::assume(take <= LEN + 1);
    let mut it = sv.into_iter();
    let mut k = 0;
    while k < take {
        match it.next() {
            Some(d) => {
                assert!(k < m.len && d.id == m.ids[k] && d.val == m.vals[k]);
                // the yielded element is alive until we drop it
                assert!(unsafe { DROPS[d.id as usize] } == 0);
                drop(d);
            }
            None => {
                assert!(k >= m.len);
            }
        }
        k += 1;
    }
    // abandon the iterator (possibly midway)
    drop(it);
    assert!(all_dropped_once());
}
op_harnesses!(c_into_iter, VERIF_PARAM_UNWIND, u3_into_iter_n1_inline, u3_into_iter_n1_heap, u3_into_iter_n2_inline, u3_into_iter_n2_heap);

/// The iterator protocol beyond `next`: `nth` (what `skip` / `step_by` call; a std default method
/// an implementation may override with a fast path) skips k elements and yields the next one; the
/// skipped ones are dropped by the call, everything left is dropped with the iterator.
fn c_into_iter_nth<const N: usize, const HEAP: bool, const LEN: usize>() {
    let (sv, m) = shape_sv::<N, HEAP, LEN>();
    let k: usize = kani::any();
    kani::assume(k <= LEN + 1);
    let mut it = sv.into_iter();
    match it.nth(k) {
        Some(d) => {
            assert!(k < m.len && d.id == m.ids[k] && d.val == m.vals[k]);
            assert!(unsafe { DROPS[d.id as usize] } == 0);
            drop(d);
        }
        None => assert!(k >= m.len),
    }
    // the skipped elements are gone already
    let mut j = 0;
    while j < m.len && j < k {
        assert!(unsafe { DROPS[m.ids[j] as usize] } == 1);
        j += 1;
    }
    drop(it);
    assert!(all_dropped_once());
}
op_harnesses!(c_into_iter_nth, VERIF_PARAM_UNWIND, u3_into_iter_nth_n1_inline, u3_into_iter_nth_n1_heap, u3_into_iter_nth_n2_inline, u3_into_iter_nth_n2_heap);

fn c_into_iter_u32<const N: usize, const HEAP: bool, const LEN: usize>() {
    let (sv, vals) = shape_sv_u32::<N, HEAP, LEN>();
    let mut k = 0;
    for x in sv {
        assert!(k < LEN && x == vals[k]);
        k += 1;
    }
    assert!(k == LEN);
}
op_harnesses!(c_into_iter_u32, VERIF_PARAM_UNWIND, u3_into_iter_u32_n1_inline, u3_into_iter_u32_n1_heap, u3_into_iter_u32_n2_inline, u3_into_iter_u32_n2_heap);

// ------------------------------------------------------------------ drop

fn c_drop<const N: usize, const HEAP: bool, const LEN: usize>() {
    let (sv, m) = shape_sv::<N, HEAP, LEN>();
    assert!(drops_match(&m));
    drop(sv);
    assert!(all_dropped_once());
}
op_harnesses!(c_drop, VERIF_PARAM_UNWIND, u3_drop_n1_inline, u3_drop_n1_heap, u3_drop_n2_inline, u3_drop_n2_heap);

// ------------------------------------------------------------------ sort (through DerefMut)

fn c_sort<const N: usize, const HEAP: bool, const LEN: usize>() {
    let (mut sv, vals) = shape_sv_u32::<N, HEAP, LEN>();
    sv.sort();
    assert!(sv.as_slice().len() == LEN && wf(&sv));
    if LEN > 1 {
        let i: usize = kani::any();
        kani::assume(i < LEN - 1);
        assert!(sv.as_slice()[i] <= sv.as_slice()[i + 1]);
    }
    // a permutation of the model: every value occurs equally often
    let probe: u32 = kani::any();
    let mut a = 0;
    let mut b = 0;
    let mut k = 0;
    while k < LEN {
        if vals[k] == probe {
            a += 1;
        }
        if sv.as_slice()[k] == probe {
            b += 1;
        }
        k += 1;
    }
    assert!(a == b);
}
harness!(u3_sort_n1_inline, 6, c_sort, 1, false, [0, 1]);
harness!(u3_sort_n2_inline, 6, c_sort, 2, false, [0, 1, 2]);
harness!(u3_sort_n1_heap, 6, c_sort, 1, true, [2, 3]);
harness!(u3_sort_n2_heap, 6, c_sort, 2, true, [3]);
