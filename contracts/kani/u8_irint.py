"""U8 `irint_steps` — per-instruction contracts of the IR interpreter (C08, C07)."""
UNIT = "u8_irint"
MOD = "exec::irint::verif_u8::"
KANI_FLAGS = ["-Z", "stubbing"]
TRUSTED = ["Box<dyn Read/Write> oracles with a symbolic index of the first refused output; failing input = absent source",
           "Instr::Calc excluded; Expr::evaluate is stubbed by a function that fails when reached (no harness block contains a Calc)",
           "block shapes and operand offsets concrete (instruction arrays in statics / on the stack so that CBMC folds the tags)"]


def overlay(tier):
    return [
        {"src": "u5_runtime_access.rs", "dest": "src/verif_u5_runtime_access.rs", "mod_in": "src/runtime.rs",
         "mod_name": "verif_u5_access", "params": {}},
        {"src": "u8_irint.rs", "dest": "src/exec/verif_u8_irint.rs", "mod_in": "src/exec/irint.rs",
         "mod_name": "verif_u8", "params": {}},
    ]


def harnesses(tier, seed):
    t = 450 if tier == "quick" else 900
    b = "tape of 4 cells, concrete block shapes (<= 2 instructions, one-instruction bodies, nesting depth 2), budget <= 3; Calc excluded"
    def h(name, fn, clause, props, allow=()):
        return {"name": MOD + name, "function": fn, "clause": clause, "properties": props, "bounded_by": b,
                "complete_over": "all cell contents, failure positions, budgets within the bound", "timeout": t,
                "allow_unreachable": list(allow)}
    return [
        h("u8_outputs_stop_at_refusal", "irint::execute_block (Output arm, `?` propagation)",
          "a refused byte ends the block at that operation: no later event, None returned", ["C08"]),
        h("u8_input_failure_stops", "irint::execute_block (Input arm)",
          "a failed input ends the block there: nothing stored, no later event, None; a successful one stores the byte", ["C08"]),
        h("u8_if_propagates_failure", "irint::execute_block (If arm)",
          "a failure INSIDE the nested block stops the whole program (no later event); otherwise the block shift is applied and execution continues", ["C08"]),
        h("u8_loop_limited", "irint::execute_block::<_, true> (Loop arm, budget)",
          "events are a canonical prefix; stops at a refused output with no later event; Some(false) exactly when the budget runs out at a back edge (budget' == 0); Some(true) only when the loop condition became zero; one budget unit per iteration", ["C07", "C08"]),
        h("u8_nested_loop_budget", "irint::execute_block::<_, true> (nested Loop arms)",
          "budget exhaustion inside an inner loop stops the whole program with Some(false): nothing after the truncated loops runs, whatever the outer condition cell holds", ["C07"]),
        h("u8_if_nested_loop_budget", "irint::execute_block::<_, true> (If arm around a Loop)",
          "budget exhaustion in a loop nested inside an If body stops the whole program with Some(false): nothing after the If runs", ["C07"]),
        h("u8_executable_result_mapping", "IrInterpreter::execute_limited (unwrap_or(true) mapping)",
          "Ok(true) on I/O-failure stop and on normal end, Ok(false) exactly on budget exhaustion, never Err", ["C07", "C08"],
          allow=["assertion failed: false"]),
    ]
