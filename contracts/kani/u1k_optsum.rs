// Kani twin of the Verus contract of `opt::wrapping_geometric_sum` (unit u10_optloop), at u8.
#![allow(dead_code)]
use super::*;

#[kani::proof]
#[kani::unwind(10)]
fn u1k_geometric_sum_u8() {
    let m: u8 = kani::any();
    let n: u8 = kani::any();
    let r = wrapping_geometric_sum::<u8>(m, n);
    // 1 + m + ... + m^(n-1), by the recurrence S(n) = 1 + m * S(n-1) (one inductive step against
    // the function itself, plus the base case): complete over all (m, n) at u8
    if n == 0 {
        assert!(r == 0);
    } else {
        let r1 = wrapping_geometric_sum::<u8>(m, n - 1);
        assert!(r == r1.wrapping_mul(m).wrapping_add(1));
    }
}
