"""U5 `bcint_ops` — per-op contracts of the threaded-code interpreter (src/exec/bcint/ops.rs).

Serves C02 (op semantics = bytecode semantics `bc_step` over the documented stream layout),
C06 (window invariant / every dereference inside the window, checked mode), C10 (unchecked
instantiations), C07 (`limit`, zero-budget entry), C08 (`input` / `output` stop paths).

The Rust harness text is GENERATED here: one contract function per op family (in
u5_bcint_ops.rs.in) plus one `#[kani::proof]` per group of op instantiations.  `ops::emit` (the
op_match! expansion) is never reached by any harness: Kani's goto-instrument needs > 65 GB for it.
"""
import os
import random

UNIT = "u5_bcint_ops"
MOD = "exec::bcint::ops::verif_u5::"
KANI_FLAGS = ["-Z", "stubbing"]
TRUSTED = [
    "bytecode semantics `bc_step` written in the harness (reads in operand order src0, src1; MemZero = read then clear; Tmp(0)/Tmp(1) live in r0/r1)",
    "stream layout [op, src0 word?, src1 word?, dst word?] and operand-kind selection as pushed by ops::emit -- by inspection only: emit itself is out of Kani's reach (65 GB in goto-instrument)",
    "precondition (C11, not discharged): operands inside [min_accessed, max_accessed], temp index in 2..temps for `Tmp` operands, a MemZero source of a two-operand op does not alias its destination",
    "debug-assertions build of `noop` (trampolined dispatch); the release tail-call `noop` is not covered",
]

HERE = os.path.dirname(os.path.abspath(__file__))

DSTS = ["Reg0", "Reg1", "Tmp", "Mem"]
SRCS = ["Reg0", "Reg1", "Tmp", "Mem", "MemZero", "Zero", "One", "NegOne", "Imm"]
BIN = {"copy": 3, "add": 0, "sub": 1, "mul": 2}        # op -> arithmetic selector (3 = copy)
TER = {"add2": 0, "sub2": 1, "mul2": 2}
WIDTHS_Q = ["u8", "u64"]
WIDTHS_T = ["u8", "u16", "u32", "u64"]


def _groups(tier, seed):
    """-> list of (harness name, width, calls=[rust call text], function text, kind).
    ONE instantiation per harness: 9 instantiations in one harness cost 150-230 s, one alone 6 s."""
    rnd = random.Random(seed)
    groups = []
    allbin = [(op, d, s) for op in BIN for d in DSTS for s in SRCS]
    allter = [(op, d, s0, s1) for op in TER for d in DSTS for s0 in SRCS for s1 in SRCS]
    if tier == "quick":
        must_b = [("add", "Mem", "MemZero"), ("copy", "Tmp", "Imm"), ("sub", "Reg0", "Mem"), ("mul", "Reg1", "Tmp"),
                  ("copy", "Mem", "MemZero"), ("sub", "Mem", "One"), ("add", "Reg0", "Reg1"), ("mul", "Tmp", "NegOne")]
        must_t = [("add2", "Mem", "MemZero", "MemZero"), ("sub2", "Tmp", "Imm", "Mem"), ("mul2", "Reg0", "Mem", "Mem"),
                  ("add2", "Reg1", "Reg0", "Reg1"), ("sub2", "Mem", "MemZero", "Tmp"), ("mul2", "Tmp", "Tmp", "Imm"),
                  ("sub2", "Reg0", "Zero", "Reg0"), ("add2", "Mem", "Mem", "MemZero")]
        binsel = [(t, "u8") for t in must_b + rnd.sample([t for t in allbin if t not in must_b], 28)]
        tersel = [(t, "u8") for t in must_t + rnd.sample([t for t in allter if t not in must_t], 28)]
        # 64-bit instances.  (Products at 32 / 64 bits are proved with the multiplication itself
        # UNINTERPRETED -- see `verif_uf_mul_*` in the prelude: two 64-bit multiplier circuits behind
        # symbolic operand muxes cost CBMC minutes and time out depending on the instance.)
        binsel += [(t, "u64") for t in rnd.sample(allbin, 4)]
        tersel += [(t, "u64") for t in rnd.sample(allter, 4)]
        binsel += [(("mul", "Reg1", "Reg0"), "u64")]
        tersel += [(("mul2", "Reg0", "Reg1", "Imm"), "u64"), (("mul2", "Tmp", "MemZero", "NegOne"), "u64")]
        binsel += [(t, rnd.choice(["u16", "u32"])) for t in rnd.sample(allbin, 2)]
    else:
        def wide(t):
            return "u64"
        binsel = [(t, "u8") for t in allbin] + [(t, wide(t)) for t in allbin] + [(t, w) for t in rnd.sample(allbin, 24) for w in ("u16", "u32")]
        tersel = [(t, "u8") for t in allter] + [(t, wide(t)) for t in rnd.sample(allter, 160)] + \
                 [(t, w) for t in rnd.sample(allter, 24) for w in ("u16", "u32")]
    seen = set()
    for (op, d, s), w in binsel:
        name = "u5_%s_%s_%s_%s" % (op, d.lower(), s.lower(), w)
        if name in seen:
            continue
        seen.add(name)
        groups.append((name, w, ["arith2::<%s, %s, %s>(%s::<%s, %s, %s>, %d);" % (w, d, s, op, w, d, s, BIN[op])],
                       "ops::%s::<%s, %s, %s> + operand accessors %s::{read,write}, %s::read" % (op, w, d, s, d, s), "bin"))
    for (op, d, s0, s1), w in tersel:
        name = "u5_%s_%s_%s_%s_%s" % (op, d.lower(), s0.lower(), s1.lower(), w)
        if name in seen:
            continue
        seen.add(name)
        groups.append((name, w, ["arith3::<%s, %s, %s, %s>(%s::<%s, %s, %s, %s>, %d);" % (w, d, s0, s1, op, w, d, s0, s1, TER[op])],
                       "ops::%s::<%s, %s, %s, %s> + operand accessors" % (op, w, d, s0, s1), "ter"))
    return groups


def _harness_text(tier, seed):
    src = open(os.path.join(HERE, "u5_bcint_ops.rs.in")).read()
    out = [src]
    for name, w, calls, fn, kind in _groups(tier, seed):
        stub = ""
        if w in ("u32", "u64") and "_mul" in name[:7]:
            stub = "#[kani::stub(<%s as CellType>::wrapping_mul, verif_uf_mul_%s)]\n" % (w, w)
        out.append("#[kani::proof]\n#[kani::unwind(8)]\n%sfn %s() {\n    unsafe {\n        %s\n    }\n}\n" % (
            stub, name, "\n        ".join(calls)))
    return "\n".join(out)


def overlay(tier, seed=0):
    return [
        {"src": "u5_runtime_access.rs", "dest": "src/verif_u5_runtime_access.rs", "mod_in": "src/runtime.rs",
         "mod_name": "verif_u5_access", "params": {}},
        {"src": _harness_text(tier, seed), "dest": "src/exec/bcint/verif_u5_ops.rs", "mod_in": "src/exec/bcint/ops.rs",
         "mod_name": "verif_u5", "params": {}},
    ]


ARITH_CLAUSE = ("post-state == bc_step(instr, pre-state) on EVERY cell of the window, every temporary, r0/r1 "
                "(observed through noop's spill), budget and tape pointer untouched, ip advanced past exactly "
                "the words consumed; every dereference inside the window / temps array (Kani pointer checks)")

SIMPLE = [
    # (harness, function, clause, properties, bounded)
    ("u5_noop", "ops::noop (debug-assertions variant)", "spills r0/r1 to temps[0..2], saves the tape pointer, returns ip unchanged", ["C02"]),
    ("u5_ret", "ops::ret", "returns the null ip and touches nothing", ["C02", "C07"]),
    ("u5_brz", "ops::brz", "ip := ip + offset word iff the condition cell is zero, else past the 3 words; state untouched", ["C02", "C06"]),
    ("u5_brnz", "ops::brnz", "ip := ip + offset word iff the condition cell is non-zero, else past the 3 words; state untouched", ["C02", "C06"]),
    ("u5_input", "ops::input", "Some(b): cell[dst] := b, continue at ip+2; end of input stores 0; failure / absent source: null ip, NO store, exactly one input request", ["C02", "C08", "C06"]),
    ("u5_output", "ops::output", "emits low 8 bits of cell[src] exactly once; success: continue at ip+2; refused byte / error: null ip; state untouched", ["C02", "C08", "C06"]),
    ("u5_limit", "ops::limit", "budget > cost: budget -= cost, continue at ip+2; else budget := 0, r0/r1 spilled, tape pointer saved, returns ip+2 (the NEXT instruction) -- execute_in's loop then reports 'not finished'", ["C07"]),
    ("u5_emit_limit_return", "ops::{emit_limit, emit_return, adjust_branch}", "push [limit, cost] / [ret]; adjust_branch patches word 2 only", ["C07", "C02"]),
    ("u5_enter_ops", "ops::enter_ops", "makes [min_accessed, max_accessed] accessible (window invariant established), loads r0/r1 from temps[0..2], enters the first op with the current tape pointer", ["C06", "C02"]),
    ("u5_enter_ops_used_tape", "ops::enter_ops (context that already owns a tape)", "from ANY tape with the pointer inside it (the window of the new program need not be): the window invariant is established and the current cell keeps its value", ["C06", "C02"]),
]

MOVES = [
    ("u5_movr_safe", "ops::{movr::<_, true>, checkr}", "tape pointer moves right by the shift word; window invariant re-established (growth above through make_accessible); every cell keeps its value (view preserved)", ["C06", "C02"]),
    ("u5_movl_safe_inside", "ops::{movl::<_, true>, checkl}", "tape pointer moves left by the shift word while the far edge stays inside the block: no growth, window invariant holds, view preserved", ["C06", "C02"]),
    ("u5_movr_unsafe", "ops::movr::<_, false>", "same post-state as the checked op when the destination window lies inside the allocation; no access outside it", ["C10", "C02"]),
    ("u5_movl_unsafe", "ops::movl::<_, false>", "same post-state as the checked op when the destination window lies inside the allocation; no access outside it", ["C10", "C02"]),
    ("u5_scanr_unsafe", "ops::scanr::<_, false>", "as the checked op when every visited window lies inside the allocation", ["C10", "C02"]),
    ("u5_scanl_unsafe", "ops::scanl::<_, false>", "as the checked op when every visited window lies inside the allocation", ["C10", "C02"]),
]


def harnesses(tier, seed):
    t = 450 if tier == "quick" else 900
    hs = []
    gs = _groups(tier, seed)
    n_inst = len(gs)
    for name, w, calls, fn, kind in gs:
        hs.append({"name": MOD + name, "function": fn, "clause": ARITH_CLAUSE,
                   "properties": ["C02", "C06"],
                   "bounded_by": "window of 5 cells [-2, 2], 4 temporaries; operand-kind instantiations enumerated (%s tier: %d of 1116 per width)" % (tier, n_inst),
                   "complete_over": "all cell / temporary / register contents, all in-window offsets, all temp indices, all immediates (symbolic)",
                   "timeout": t})
    for name, fn, clause, props in SIMPLE:
        hs.append({"name": MOD + name, "function": fn, "clause": clause, "properties": props,
                   "bounded_by": "window of 5 cells, 4 temporaries", "complete_over": "all contents, offsets, budgets, costs (symbolic)",
                   "timeout": t})
    for name, fn, clause, props in MOVES:
        inside = name.endswith("unsafe") or name.endswith("inside")
        hs.append({"name": MOD + name, "function": fn, "clause": clause, "properties": props,
                   # the contract function is shared: clauses of the other variant are dead here
                   "allow_unreachable": ["tape grew", "no growth needed"] if inside else ["size1 == size0"],
                   "bounded_by": "buffer <= 8 cells, window within [-1, 1], |shift| <= 3",
                   "complete_over": "all buffer sizes / pointer positions within the bound, all contents", "timeout": t})
    return hs
