// U8 `irint_steps` — Kani contracts for the IR interpreter's `execute_block` (src/exec/irint.rs),
// properties C08 (an I/O failure stops at that operation, also from inside nested blocks) and C07
// (budget-limited loops, nested).
//
// Block SHAPES and operand offsets are concrete; cell contents, oracle outcomes and budgets are
// symbolic.  The instruction arrays live in statics / on the stack and are handed to the
// interpreter as `Vec`s built with `Vec::from_raw_parts` (never dropped): CBMC constant-folds the
// instruction tags only then -- with `vec![..]` it explores all five arms of `execute_block`
// (recursively) per iteration and does not finish even a two-instruction block.
// `Instr::Calc` is excluded (it evaluates `Expr`, out of Kani's reach); `Expr::evaluate` is stubbed
// by a function that FAILS when reached, so the exclusion cannot hide anything.
#![allow(dead_code, unused_unsafe, static_mut_refs)]

use super::*;
use crate::ir::{Block, Instr};
use crate::runtime::{Context, Memory};
use std::alloc::{alloc_zeroed, Layout};
use std::io::{self, Read, Write};
use std::mem::ManuallyDrop;

impl<C: CellType> crate::ir::Expr<C> {
    fn verif_calc_not_reached<F: Fn(isize) -> C>(&self, _f: F) -> C {
        panic!("Instr::Calc reached in a harness that contains no Calc instruction");
    }
}

static mut OUT_CALLS: usize = 0;
static mut IN_CALLS: usize = 0;
static mut OUT_LOG: [u8; 6] = [0; 6];
/// index of the first output request that is refused (>= 8: never)
static mut OUT_FAIL_AT: usize = 8;
static mut IN_BYTE: u8 = 0;

struct Src;
impl Read for Src {
    fn read(&mut self, buf: &mut [u8]) -> io::Result<usize> {
        // never Err (io::Error's drop glue is recursive and expensive for CBMC); a FAILING input is
        // modelled by an absent source (Err => None is Context::input's contract, unit u2)
        unsafe {
            IN_CALLS += 1;
            buf[0] = IN_BYTE;
        }
        Ok(1)
    }
}
struct Sink;
impl Write for Sink {
    fn write(&mut self, buf: &[u8]) -> io::Result<usize> {
        unsafe {
            let k = OUT_CALLS;
            if k < 6 {
                OUT_LOG[k] = buf[0];
            }
            OUT_CALLS += 1;
            if k >= OUT_FAIL_AT {
                Ok(0)
            } else {
                Ok(1)
            }
        }
    }
    fn flush(&mut self) -> io::Result<()> {
        Ok(())
    }
}

/// tape of 4 cells, pointer at index 1 (offsets -1..=2 are in the buffer)
unsafe fn mk_cxt(input_present: bool) -> (Context<'static, u8>, [u8; 4]) {
    OUT_CALLS = 0;
    IN_CALLS = 0;
    let mut cxt: Context<'static, u8> = if input_present {
        Context::new(Some(Box::new(Src)), Some(Box::new(Sink)))
    } else {
        Context::new(None, Some(Box::new(Sink)))
    };
    let buf = alloc_zeroed(Layout::array::<u8>(4).unwrap());
    kani::assume(!buf.is_null());
    let cells: [u8; 4] = [kani::any(), kani::any(), kani::any(), kani::any()];
    *buf.add(0) = cells[0];
    *buf.add(1) = cells[1];
    *buf.add(2) = cells[2];
    *buf.add(3) = cells[3];
    cxt.memory = Memory::verif_from_raw(buf, 4, 1);
    (cxt, cells)
}

unsafe fn as_block<const N: usize>(insts: &[ManuallyDrop<Instr<u8>>; N], shift: isize) -> ManuallyDrop<Block<u8>> {
    ManuallyDrop::new(Block { shift, insts: Vec::from_raw_parts(insts.as_ptr() as *mut Instr<u8>, N, N) })
}

static OUT1: [Instr<u8>; 1] = [Instr::Output { src: 1 }];
static OUT0: [Instr<u8>; 1] = [Instr::Output { src: 0 }];
static INP_M1: [Instr<u8>; 1] = [Instr::Input { dst: -1 }];

unsafe fn static_block(insts: &'static [Instr<u8>; 1], shift: isize) -> Block<u8> {
    Block { shift, insts: Vec::from_raw_parts(insts.as_ptr() as *mut Instr<u8>, 1, 1) }
}

/// `[Output 0, Output 1]`: a refused byte ends the block there -- no later event, `None`.
#[kani::proof]
#[kani::unwind(4)]
#[kani::stub(crate::ir::Expr::evaluate, crate::ir::Expr::verif_calc_not_reached)]
fn u8_outputs_stop_at_refusal() {
    unsafe {
        let (mut cxt, cells) = mk_cxt(true);
        OUT_FAIL_AT = kani::any();
        let insts = [ManuallyDrop::new(Instr::Output { src: 0 }), ManuallyDrop::new(Instr::Output { src: 1 })];
        let block = as_block(&insts, 0);
        let r = execute_block::<u8, false>(&mut cxt, &block);
        assert!(OUT_LOG[0] == cells[1]);
        if OUT_FAIL_AT == 0 {
            assert!(r.is_none() && OUT_CALLS == 1);
        } else {
            assert!(OUT_CALLS == 2 && OUT_LOG[1] == cells[2]);
            assert!(r.is_none() == (OUT_FAIL_AT == 1));
            if OUT_FAIL_AT > 1 {
                assert!(r == Some(true));
            }
        }
    }
}

/// `[Input 0, Output 0]`: a failed input ends the block there: nothing stored, no output, `None`;
/// a successful one stores the byte, which the output then emits.
#[kani::proof]
#[kani::unwind(4)]
#[kani::stub(crate::ir::Expr::evaluate, crate::ir::Expr::verif_calc_not_reached)]
fn u8_input_failure_stops() {
    unsafe {
        let present: bool = kani::any();
        let (mut cxt, cells) = mk_cxt(present);
        IN_BYTE = kani::any();
        OUT_FAIL_AT = kani::any();
        let insts = [ManuallyDrop::new(Instr::Input { dst: 0 }), ManuallyDrop::new(Instr::Output { src: 0 })];
        let block = as_block(&insts, 0);
        let r = execute_block::<u8, false>(&mut cxt, &block);
        if !present {
            assert!(r.is_none() && OUT_CALLS == 0);
            assert!(cxt.memory.read(0) == cells[1]);
        } else {
            assert!(IN_CALLS == 1 && OUT_CALLS == 1 && OUT_LOG[0] == IN_BYTE);
            assert!(cxt.memory.read(0) == IN_BYTE);
            assert!(r.is_none() == (OUT_FAIL_AT == 0));
        }
    }
}

/// `[If { cond 0, [Output 1] shift s }, Output 1]`: a failure INSIDE the nested block stops the
/// whole program; otherwise the block's shift is applied before the next instruction.
#[kani::proof]
#[kani::unwind(4)]
#[kani::stub(crate::ir::Expr::evaluate, crate::ir::Expr::verif_calc_not_reached)]
fn u8_if_propagates_failure() {
    unsafe {
        let (mut cxt, cells) = mk_cxt(true);
        OUT_FAIL_AT = kani::any();
        let shifted: bool = kani::any();
        let s: isize = if shifted { 1 } else { 0 };
        let insts = [ManuallyDrop::new(Instr::If { cond: 0, block: static_block(&OUT1, s) }), ManuallyDrop::new(Instr::Output { src: 1 })];
        let block = as_block(&insts, 0);
        let r = execute_block::<u8, false>(&mut cxt, &block);
        let taken = cells[1] != 0;
        kani::cover!(taken && OUT_FAIL_AT == 0, "failure inside the If block");
        kani::cover!(taken && OUT_FAIL_AT == 1, "failure after the If block");
        kani::cover!(!taken, "If not taken");
        if taken {
            assert!(OUT_LOG[0] == cells[2]);
            if OUT_FAIL_AT == 0 {
                assert!(r.is_none()); // stop at the failing operation ...
                assert!(OUT_CALLS == 1); // ... and no later event
            } else {
                assert!(OUT_CALLS == 2 && OUT_LOG[1] == cells[(2 + s) as usize]);
                assert!(r.is_none() == (OUT_FAIL_AT == 1));
            }
        } else {
            assert!(OUT_CALLS == 1 && OUT_LOG[0] == cells[2]);
            assert!(r.is_none() == (OUT_FAIL_AT == 0));
        }
    }
}

/// `[Loop { cond 0, [Output 0] shift 1 }, Output 0]`, LIMITED: walks right over the non-zero
/// cells; stops at a refused byte with no later event, or at budget exhaustion with `Some(false)`
/// (budget left at 0); `Some(true)` only when the loop condition became zero.
#[kani::proof]
#[kani::unwind(6)]
#[kani::stub(crate::ir::Expr::evaluate, crate::ir::Expr::verif_calc_not_reached)]
fn u8_loop_limited() {
    unsafe {
        let (mut cxt, cells) = mk_cxt(true);
        OUT_FAIL_AT = kani::any();
        let budget: usize = kani::any();
        kani::assume(budget <= 3);
        cxt.budget = budget;
        let insts = [ManuallyDrop::new(Instr::Loop { cond: 0, block: static_block(&OUT0, 1), once: false }), ManuallyDrop::new(Instr::Output { src: 0 })];
        let block = as_block(&insts, 0);
        let r = execute_block::<u8, true>(&mut cxt, &block);
        // canonical trip count: consecutive non-zero cells from the pointer (beyond the buffer: 0)
        let n = if cells[1] == 0 { 0 } else if cells[2] == 0 { 1 } else if cells[3] == 0 { 2 } else { 3 };
        kani::cover!(n == 3 && budget == 3 && OUT_FAIL_AT > 3, "loop ran off the data");
        kani::cover!(n > budget && OUT_FAIL_AT > budget, "budget exhausted first");
        kani::cover!(OUT_FAIL_AT < n && OUT_FAIL_AT <= budget, "output refused inside the loop");
        // events are a prefix of the canonical sequence
        if OUT_CALLS > 0 && n > 0 {
            assert!(OUT_LOG[0] == cells[1]);
        }
        if OUT_CALLS > 1 && n > 1 {
            assert!(OUT_LOG[1] == cells[2]);
        }
        if OUT_CALLS > 2 && n > 2 {
            assert!(OUT_LOG[2] == cells[3]);
        }
        if OUT_FAIL_AT < n && OUT_FAIL_AT <= budget {
            assert!(r.is_none() && OUT_CALLS == OUT_FAIL_AT + 1);
        } else if n > budget {
            assert!(r == Some(false) && OUT_CALLS == budget + 1 && cxt.budget == 0);
        } else {
            assert!(OUT_CALLS == n + 1); // the trailing output happens
            assert!(cxt.budget == budget - n);
            assert!(r.is_none() == (OUT_FAIL_AT == n));
            if OUT_FAIL_AT > n {
                assert!(r == Some(true));
            }
        }
    }
}

/// Nested loops, LIMITED: `[Loop { cond 0, [Loop { cond 1, [Input -1] }] }, Output 0]` with cell 1
/// non-zero (the inner loop never ends by itself) and each input overwriting the OUTER condition
/// cell.  When the budget runs out inside the inner loop the whole program must stop with
/// `Some(false)`: no instruction after the truncated loops may run, whatever the outer condition
/// cell holds at that instant.
#[kani::proof]
#[kani::unwind(6)]
#[kani::stub(crate::ir::Expr::evaluate, crate::ir::Expr::verif_calc_not_reached)]
fn u8_nested_loop_budget() {
    unsafe {
        let (mut cxt, cells) = mk_cxt(true);
        kani::assume(cells[1] != 0 && cells[2] != 0);
        IN_BYTE = kani::any(); // value written into cell -1 ... see below
        let budget: usize = kani::any();
        kani::assume(budget <= 3);
        cxt.budget = budget;
        // inner: while cell[1] != 0 { cell[0] := input }   (relative to the pointer: cond 1, dst 0)
        static INP0: [Instr<u8>; 1] = [Instr::Input { dst: 0 }];
        let inner = [ManuallyDrop::new(Instr::Loop { cond: 1, block: static_block(&INP0, 0), once: false })];
        let inner_block = ManuallyDrop::into_inner(as_block(&inner, 0));
        let outer = [ManuallyDrop::new(Instr::Loop { cond: 0, block: inner_block, once: false }), ManuallyDrop::new(Instr::Output { src: 0 })];
        let block = as_block(&outer, 0);
        let r = execute_block::<u8, true>(&mut cxt, &block);
        kani::cover!(IN_BYTE == 0, "outer condition cell is zero when the budget runs out");
        // the inner loop can only end through the budget: not finished, and nothing after it ran
        assert!(r == Some(false));
        assert!(OUT_CALLS == 0);
        assert!(IN_CALLS == budget + 1);
        assert!(cxt.budget == 0);
    }
}

/// The same through an `If`: a budget that runs out in a loop nested inside an `If` body ends the
/// whole run as "not finished"; nothing after the `If` runs.
#[kani::proof]
#[kani::unwind(6)]
#[kani::stub(crate::ir::Expr::evaluate, crate::ir::Expr::verif_calc_not_reached)]
fn u8_if_nested_loop_budget() {
    unsafe {
        let (mut cxt, cells) = mk_cxt(true);
        kani::assume(cells[1] != 0 && cells[2] != 0);
        IN_BYTE = kani::any();
        let budget: usize = kani::any();
        kani::assume(budget <= 3);
        cxt.budget = budget;
        static INP0: [Instr<u8>; 1] = [Instr::Input { dst: 0 }];
        let inner = [ManuallyDrop::new(Instr::Loop { cond: 1, block: static_block(&INP0, 0), once: false })];
        let inner_block = ManuallyDrop::into_inner(as_block(&inner, 0));
        let outer = [ManuallyDrop::new(Instr::If { cond: 0, block: inner_block }), ManuallyDrop::new(Instr::Output { src: 0 })];
        let block = as_block(&outer, 0);
        let r = execute_block::<u8, true>(&mut cxt, &block);
        assert!(r == Some(false));
        assert!(OUT_CALLS == 0);
        assert!(IN_CALLS == budget + 1);
        assert!(cxt.budget == 0);
    }
}

/// `execute_limited` of the executor: an I/O-failure stop is a normal, finished return; budget
/// exhaustion is `Ok(false)`; never `Err`.
#[kani::proof]
#[kani::unwind(6)]
#[kani::stub(crate::ir::Expr::evaluate, crate::ir::Expr::verif_calc_not_reached)]
fn u8_executable_result_mapping() {
    unsafe {
        let (mut cxt, cells) = mk_cxt(true);
        OUT_FAIL_AT = kani::any();
        let budget: usize = kani::any();
        kani::assume(budget <= 3);
        cxt.budget = budget;
        let insts = [ManuallyDrop::new(Instr::Loop { cond: 0, block: static_block(&OUT0, 1), once: false })];
        let program = ManuallyDrop::into_inner(as_block(&insts, 0));
        let exec = ManuallyDrop::new(IrInterpreter { program });
        let r = exec.execute_limited(&mut cxt);
        let n = if cells[1] == 0 { 0 } else if cells[2] == 0 { 1 } else if cells[3] == 0 { 2 } else { 3 };
        match r {
            Ok(finished) => {
                let io_failed = OUT_FAIL_AT < OUT_CALLS;
                if io_failed {
                    assert!(finished);
                } else {
                    assert!(finished == (n <= budget));
                }
            }
            Err(_) => assert!(false),
        }
    }
}
