// Overlaid at the end of src/runtime.rs (scratch copy only): gives the U5/U6 harnesses, which live
// in other modules, access to the private representation of `Memory` so that they can build
// arbitrary well-formed pre-states by writing the fields directly and observe the abstract view.
// Nothing here is called by the code under verification.
#![allow(dead_code)]
use super::*;

impl<C: CellType> Memory<C> {
    pub(crate) unsafe fn verif_from_raw(buffer: *mut C, size: usize, offset: usize) -> Self {
        Memory { buffer, size, offset }
    }
    pub(crate) fn verif_parts(&self) -> (*mut C, usize, usize) {
        (self.buffer, self.size, self.offset)
    }
    /// Abstract view relative to the logical pointer (0 outside the buffer).
    pub(crate) fn verif_view(&self, i: isize) -> C {
        let p = (self.offset as isize).wrapping_add(i);
        if p >= 0 && (p as usize) < self.size {
            unsafe { *self.buffer.add(p as usize) }
        } else {
            C::ZERO
        }
    }
}
