// N6 — bounded native twin of the cell-arithmetic contracts (see n6_cell_helpers.py).
#![allow(dead_code)]
use super::*;

const SEED: u64 = VERIF_PARAM_SEED;

struct Tally {
    n: usize,
    first: Option<String>,
}
impl Tally {
    fn check(&mut self, ok: bool, what: impl FnOnce() -> String) {
        self.n += 1;
        if !ok && self.first.is_none() {
            self.first = Some(what());
        }
    }
    fn report(&self, id: &str) {
        match &self.first {
            None => println!("NATIVE {} OK cases={} nontrivial={}", id, self.n, self.n),
            Some(f) => println!("NATIVE {} FAIL cases={} nontrivial={} first={}", id, self.n, self.n, f),
        }
    }
}

fn operands<C: CellType>() -> Vec<C> {
    let w = C::BITS;
    let mask: u128 = (1u128 << w) - 1;
    let mut v: Vec<u64> = Vec::new();
    if w == 8 {
        return (0..=255u64).map(C::from_u64).collect();
    }
    for k in 0..w {
        let p = 1u128 << k;
        for d in [0i128, 1, -1, 2, -3] {
            v.push(((p as i128 + d) as u128 & mask) as u64);
        }
    }
    for x in [0u64, 1, 2, 3, 5, 6, 7, 9, 10, 12, 15, 24, 25, 27, 100, 255, 256, 257, 0x5555_5555_5555_5555, 0xAAAA_AAAA_AAAA_AAAA, 0xDEAD_BEEF_CAFE_F00D] {
        v.push((x as u128 & mask) as u64);
        v.push(((mask - (x as u128 & mask)) & mask) as u64);
    }
    let mut s = SEED | 1;
    for _ in 0..VERIF_PARAM_NRAND {
        s ^= s >> 12;
        s ^= s << 25;
        s ^= s >> 27;
        v.push((s.wrapping_mul(0x2545F4914F6CDD1D) as u128 & mask) as u64);
    }
    v.sort();
    v.dedup();
    v.into_iter().map(C::from_u64).collect()
}

fn all<C: CellType>(t: &mut [Tally; 4], name: &str) {
    let w = C::BITS;
    let md: u128 = 1u128 << w;
    let ops = operands::<C>();
    // a thinned set for the quadratic checks at the wider widths
    let small: Vec<C> = if w == 8 { ops.clone() } else { ops.iter().copied().step_by(2).collect() };
    for &a in &ops {
        let av = a.into_u64() as u128;
        // inverse
        match a.wrapping_inv() {
            Some(i) => t[1].check(av % 2 == 1 && (i.into_u64() as u128 * av) % md == 1, || format!("{} wrapping_inv({:?}) = Some({:?})", name, a, i)),
            None => t[1].check(av % 2 == 0, || format!("{} wrapping_inv({:?}) = None for an odd value", name, a)),
        }
        // conversions
        let z = a.into_u64();
        t[3].check((z as u128) < md && C::from_u64(z) == a, || format!("{} from_u64(into_u64({:?}))", name, a));
        let s = a.into_i64();
        let want_s = if av >= md / 2 { av as i128 - md as i128 } else { av as i128 };
        t[3].check(s as i128 == want_s, || format!("{} into_i64({:?}) = {}", name, a, s));
        t[3].check(a.into_u8() == (av & 0xff) as u8, || format!("{} into_u8({:?})", name, a));
        match a.try_into_i16() {
            Some(h) => t[3].check(h as i128 == want_s && C::from_i16(h) == a, || format!("{} try_into_i16({:?}) = Some({})", name, a, h)),
            None => t[3].check(want_s < i16::MIN as i128 || want_s > i16::MAX as i128, || format!("{} try_into_i16({:?}) = None", name, a)),
        }
    }
    for b in 0..=255u8 {
        let c = C::from_u8(b);
        t[3].check(c.into_u64() == b as u64 && c.into_u8() == b, || format!("{} from_u8({})", name, b));
    }
    for h in [i16::MIN, -256, -129, -128, -2, -1, 0, 1, 127, 128, 255, 256, i16::MAX] {
        let c = C::from_i16(h);
        let want = (h as i128).rem_euclid(md as i128) as u128;
        t[3].check(c.into_u64() as u128 == want, || format!("{} from_i16({})", name, h));
    }
    for &n in &small {
        for &d in &small {
            let (nv, dv) = (n.into_u64() as u128, d.into_u64() as u128);
            let tz = if dv == 0 { w } else { dv.trailing_zeros() };
            let solvable = if dv == 0 { nv == 0 } else { nv % (1u128 << tz) == 0 };
            match n.wrapping_div(d) {
                Some(x) => {
                    let xv = x.into_u64() as u128;
                    // the solutions form a coset of 2^(w - tz): the smallest one lies below that
                    let smallest = if dv == 0 { xv == 0 } else { xv < (1u128 << (w - tz)) };
                    t[0].check(solvable && (xv * dv) % md == nv && smallest, || format!("{} wrapping_div({:?}, {:?}) = Some({:?})", name, n, d, x));
                }
                None => t[0].check(!solvable, || format!("{} wrapping_div({:?}, {:?}) = None although a solution exists", name, n, d)),
            }
            // power: b^e by square-and-multiply in u128, and by repeated multiplication for small e
            let got = n.wrapping_pow(d).into_u64() as u128;
            let mut r: u128 = 1;
            let mut bb = nv;
            let mut e = dv;
            while e != 0 {
                if e & 1 == 1 {
                    r = (r * bb) % md;
                }
                bb = (bb * bb) % md;
                e >>= 1;
            }
            t[2].check(got == r, || format!("{} wrapping_pow({:?}, {:?}) = {}", name, n, d, got));
            if dv <= 300 {
                let mut rr: u128 = 1 % md;
                for _ in 0..dv {
                    rr = (rr * nv) % md;
                }
                t[2].check(got == rr, || format!("{} wrapping_pow({:?}, {:?}) = {} (repeated multiplication gives {})", name, n, d, got, rr));
            }
        }
    }
}

#[test]
fn verif_n6_all() {
    let mut t = [Tally { n: 0, first: None }, Tally { n: 0, first: None }, Tally { n: 0, first: None }, Tally { n: 0, first: None }];
    all::<u8>(&mut t, "u8");
    all::<u16>(&mut t, "u16");
    all::<u32>(&mut t, "u32");
    all::<u64>(&mut t, "u64");
    for (k, id) in ["div", "inv", "pow", "conv"].iter().enumerate() {
        t[k].report(id);
    }
}
