// N4 — bounded native check of the closed forms in OptRebuild::loop_motion (see n4_loop_motion.py).
#![allow(dead_code)]
use super::*;

struct Tally {
    n: usize,
    nontrivial: usize,
    first: Option<String>,
}
impl Tally {
    fn check(&mut self, ok: bool, what: impl FnOnce() -> String) {
        self.n += 1;
        if !ok && self.first.is_none() {
            self.first = Some(what());
        }
    }
    fn report(&self, id: &str) {
        match &self.first {
            None => println!("NATIVE {} OK cases={} nontrivial={}", id, self.n, self.nontrivial),
            Some(f) => println!("NATIVE {} FAIL cases={} nontrivial={} first={}", id, self.n, self.nontrivial, f),
        }
    }
}

fn ev<C: CellType>(e: &Expr<C>, x: &[C; 4]) -> C {
    e.evaluate(|v| if (0..4).contains(&v) { x[v as usize] } else { C::ZERO })
}

/// One loop: every iteration performs (simultaneously) x0 := pending, x1 := x1 + step; x2, x3 fixed.
/// `trip` is the trip-count expression (over the state in front of the loop).
fn case<C: CellType>(t: &mut Tally, pending: &Expr<C>, step: Option<C>, trip: &Expr<C>, consts: &[isize], starts: &[[C; 4]], what: &str) {
    let st = OptRebuild::<C>::new(0, None, OptParent::Unknown, None);
    let reads: HashSet<isize> = HashSet::new();
    let constant: HashSet<isize> = consts.iter().copied().collect();
    let mut linear: HashMap<isize, Expr<C>> = HashMap::new();
    let mut other: HashSet<isize> = HashSet::new();
    other.insert(0);
    if let Some(s) = step {
        linear.insert(1, Expr::val(s));
        other.insert(1);
    }
    let la = OptLoop::expr(trip.clone());
    let [b, d, a] = st.loop_motion(0, pending.clone(), true, &reads, &constant, &linear, &other, &la);
    if b.is_some() {
        t.nontrivial += 1;
    }
    for x in starts {
        let n = ev(trip, x).into_u64();
        if n == 0 || n > 300 {
            continue;
        }
        // the loop as written
        let mut s = *x;
        for _ in 0..n {
            let v = ev(pending, &s);
            if let Some(j) = step {
                s[1] = s[1].wrapping_add(j);
            }
            s[0] = v;
        }
        // the loop as loop_motion splits it
        let mut r = *x;
        if let Some(b) = &b {
            r[0] = ev(b, &r);
        }
        for _ in 0..n {
            let v = d.as_ref().map(|d| ev(d, &r));
            if let Some(j) = step {
                r[1] = r[1].wrapping_add(j);
            }
            if let Some(v) = v {
                r[0] = v;
            }
        }
        if let Some(a) = &a {
            r[0] = ev(a, &r);
        }
        t.check(s[0] == r[0], || {
            format!("{} body [0] := {:?}{} run {} times from {:?}: the loop leaves [0] = {:?}, loop_motion's [before={:?}, during={:?}, after={:?}] leaves {:?}",
                what, pending, if let Some(j) = step { format!(", [1] += {:?}", j) } else { String::new() }, n, x, s[0], b, d, a, r[0])
        });
    }
}

fn bnd<C: CellType>() -> Vec<C> {
    let half = C::ONE.wrapping_shl(C::BITS - 1);
    vec![C::ZERO, C::ONE, C::from_u8(2), C::from_u8(3), C::from_u8(6), C::NEG_ONE, half, half.wrapping_add(C::ONE)]
}

fn starts<C: CellType>() -> Vec<[C; 4]> {
    let mut v = Vec::new();
    for a in [C::ZERO, C::ONE, C::from_u8(7), C::NEG_ONE] {
        for b in [C::ONE, C::from_u8(3)] {
            v.push([a, b, b.wrapping_add(C::from_u8(4)), C::from_u8(5)]);
        }
    }
    v
}

fn geometric<C: CellType>(t: &mut Tally, muls: &[C], trips: &[C], w: &str) {
    let st = starts::<C>();
    for &m in muls {
        for &c in trips {
            let trip = Expr::val(c);
            for k in bnd::<C>() {
                let p = Expr::var(0).mul(Expr::val(m)).add(Expr::val(k));
                case(t, &p, None, &trip, &[], &st, w);
                let p = Expr::var(0).mul(Expr::val(m)).add(Expr::var(2).mul(Expr::val(k)));
                case(t, &p, None, &trip, &[2], &st, w);
            }
        }
    }
}

#[test]
fn verif_n4_geometric() {
    let mut t = Tally { n: 0, nontrivial: 0, first: None };
    let all: Vec<u8> = (0..=255).collect();
    let trips: Vec<u8> = (1..=255).collect();
    geometric::<u8>(&mut t, &all, &trips, "u8");
    let m16: Vec<u16> = vec![0, 1, 2, 3, 4, 5, 7, 255, 256, 257, 0x7fff, 0x8000, 0x8001, 0xfffe, 0xffff];
    let t16: Vec<u16> = (1..=40).chain([127, 128, 129, 200, 255, 256, 257, 300]).collect();
    geometric::<u16>(&mut t, &m16, &t16, "u16");
    let m64: Vec<u64> = vec![0, 1, 2, 3, 5, 7, 1 << 32, (1 << 32) + 1, u64::MAX, u64::MAX - 1, 1 << 63, (1 << 63) + 1];
    let t64: Vec<u64> = (1..=40).chain([63, 64, 65, 127, 128, 255, 256, 300]).collect();
    geometric::<u64>(&mut t, &m64, &t64, "u64");
    t.report("geometric");
}

fn arithmetic<C: CellType>(t: &mut Tally, trips: &[C], w: &str) {
    let st = starts::<C>();
    for &c in trips {
        for k in bnd::<C>() {
            for j in bnd::<C>() {
                for m in [C::ZERO, C::from_u8(3)] {
                    // [0] := [0] + k*[1] + 2*[2] + m      with [1] += j per iteration, [2] constant
                    let p = Expr::var(0).add(Expr::var(1).mul(Expr::val(k))).add(Expr::var(2).mul(Expr::val(C::from_u8(2)))).add(Expr::val(m));
                    case(t, &p, Some(j), &Expr::val(c), &[2], &st, w);
                    // the same with a product of the linear variable and a constant one
                    let p = Expr::var(0).add(Expr::var(1).mul(Expr::var(2)).mul(Expr::val(k))).add(Expr::val(m));
                    case(t, &p, Some(j), &Expr::val(c), &[2], &st, w);
                }
            }
        }
    }
    // trip count held in a (constant) cell: [3] = 5 in every start state
    for k in bnd::<C>() {
        for j in bnd::<C>() {
            let p = Expr::var(0).add(Expr::var(1).mul(Expr::val(k))).add(Expr::val(C::ONE));
            case(t, &p, Some(j), &Expr::var(3), &[2, 3], &st, w);
        }
    }
}

#[test]
fn verif_n4_arithmetic() {
    let mut t = Tally { n: 0, nontrivial: 0, first: None };
    let trips: Vec<u8> = (1..=255).collect();
    arithmetic::<u8>(&mut t, &trips, "u8");
    let t64: Vec<u64> = (1..=40).chain([63, 64, 65, 127, 128, 255, 256, 300]).collect();
    arithmetic::<u64>(&mut t, &t64, "u64");
    t.report("arithmetic");
}
