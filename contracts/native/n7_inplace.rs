// N7 — bounded native twin of the in-place interpreter contract (see n7_inplace.py).
#![allow(dead_code)]
use super::*;
use crate::runtime::Context;
use std::cell::RefCell;
use std::io::{self, Read, Write};
use std::rc::Rc;

#[derive(Clone, Copy, PartialEq, Debug)]
enum Ev {
    In,
    Out(u8),
    /// the interpreter returned an error on a balanced program, or panicked
    Failed(&'static str),
}

struct LogRead {
    data: Vec<u8>,
    pos: usize,
    /// index of the request that fails with an error (usize::MAX: none) and its kind
    fail_at: usize,
    fail_how: u8,
    n: usize,
    log: Rc<RefCell<Vec<Ev>>>,
}
impl Read for LogRead {
    fn read(&mut self, buf: &mut [u8]) -> io::Result<usize> {
        self.n += 1;
        if self.n - 1 == self.fail_at {
            return refusal(self.fail_how.max(1));
        }
        self.log.borrow_mut().push(Ev::In);
        if self.pos < self.data.len() {
            buf[0] = self.data[self.pos];
            self.pos += 1;
            Ok(1)
        } else {
            Ok(0)
        }
    }
}
struct LogWrite {
    refuse_at: usize,
    /// how the byte is refused: 0 = Ok(0), else an error of some kind (Interrupted and WouldBlock
    /// are the ones retrying helpers such as `write_all` treat specially)
    refuse_how: u8,
    n: usize,
    log: Rc<RefCell<Vec<Ev>>>,
}
fn refusal(how: u8) -> io::Result<usize> {
    match how {
        0 => Ok(0),
        1 => Err(io::Error::from(io::ErrorKind::Other)),
        2 => Err(io::Error::from(io::ErrorKind::Interrupted)),
        3 => Err(io::Error::from(io::ErrorKind::WouldBlock)),
        4 => Err(io::Error::from(io::ErrorKind::UnexpectedEof)),
        _ => Err(io::Error::from(io::ErrorKind::BrokenPipe)),
    }
}
impl Write for LogWrite {
    fn write(&mut self, buf: &[u8]) -> io::Result<usize> {
        self.n += 1;
        if self.n - 1 == self.refuse_at {
            return refusal(self.refuse_how);
        }
        self.log.borrow_mut().push(Ev::Out(buf[0]));
        Ok(1)
    }
    fn flush(&mut self) -> io::Result<()> {
        Ok(())
    }
}

const TAPE: usize = 1 << 18;

/// canonical semantics; events up to `max_steps` commands; (events, halted, tape around the origin)
/// `refuse_at`: index of the output byte that is refused (the run stops there); `no_input`: the
/// first input request fails (the run stops there)
fn canon(code: &[u8], input: &[u8], bits: u32, max_steps: usize, refuse_at: usize, no_input: bool) -> (Vec<Ev>, bool, Vec<u64>) {
    canon2(code, input, bits, max_steps, refuse_at, if no_input { 0 } else { usize::MAX })
}

/// `in_fail_at`: index of the input request that fails (the run stops there, nothing is stored)
fn canon2(code: &[u8], input: &[u8], bits: u32, max_steps: usize, refuse_at: usize, in_fail_at: usize) -> (Vec<Ev>, bool, Vec<u64>) {
    let mask: u64 = if bits == 64 { u64::MAX } else { (1u64 << bits) - 1 };
    let mut tape = vec![0u64; TAPE];
    let mut p = TAPE / 2;
    let mut pc = 0;
    let mut ev = Vec::new();
    let mut inp = 0;
    let mut outs = 0;
    let mut steps = 0;
    let mut halted = false;
    loop {
        if pc >= code.len() {
            halted = true;
            break;
        }
        if steps >= max_steps || p < 16 || p + 16 >= TAPE {
            break; // step bound reached, or the reference tape left: treated as "did not halt"
        }
        steps += 1;
        match code[pc] {
            b'+' => tape[p] = tape[p].wrapping_add(1) & mask,
            b'-' => tape[p] = tape[p].wrapping_sub(1) & mask,
            b'>' => p += 1,
            b'<' => p -= 1,
            b'.' => {
                if outs == refuse_at {
                    halted = true;
                    break;
                }
                outs += 1;
                ev.push(Ev::Out(tape[p] as u8));
            }
            b',' => {
                if inp == in_fail_at {
                    halted = true;
                    break;
                }
                ev.push(Ev::In);
                tape[p] = if inp < input.len() { input[inp] as u64 } else { 0 };
                inp += 1;
            }
            b'[' => {
                if tape[p] == 0 {
                    let mut d = 0;
                    loop {
                        pc += 1;
                        if code[pc] == b'[' {
                            d += 1;
                        } else if code[pc] == b']' {
                            if d == 0 {
                                break;
                            }
                            d -= 1;
                        }
                    }
                }
            }
            b']' => {
                if tape[p] != 0 {
                    let mut d = 0;
                    loop {
                        pc -= 1;
                        if code[pc] == b']' {
                            d += 1;
                        } else if code[pc] == b'[' {
                            if d == 0 {
                                break;
                            }
                            d -= 1;
                        }
                    }
                }
            }
            _ => {}
        }
        pc += 1;
    }
    let view: Vec<u64> = (0..17).map(|i| tape[p + i - 8]).collect();
    (ev, halted, view)
}

struct Tally {
    n: usize,
    nontrivial: usize,
    first: Option<String>,
}
impl Tally {
    fn check(&mut self, ok: bool, what: impl FnOnce() -> String) {
        self.n += 1;
        if !ok && self.first.is_none() {
            self.first = Some(what());
        }
    }
    fn report(&self, id: &str) {
        match &self.first {
            None => println!("NATIVE {} OK cases={} nontrivial={}", id, self.n, self.nontrivial),
            Some(f) => println!("NATIVE {} FAIL cases={} nontrivial={} first={}", id, self.n, self.nontrivial, f),
        }
    }
}

fn balanced(code: &[u8]) -> bool {
    let mut d = 0i32;
    for &c in code {
        if c == b'[' {
            d += 1;
        } else if c == b']' {
            d -= 1;
            if d < 0 {
                return false;
            }
        }
    }
    d == 0
}

/// run the real interpreter; budget None = unlimited
fn real<C: CellType>(code: &str, input: &[u8], budget: Option<usize>, refuse_at: usize, no_input: bool) -> (Vec<Ev>, bool, Vec<u64>) {
    real2::<C>(code, input, budget, refuse_at, 0, no_input, usize::MAX, 0)
}

fn real2<C: CellType>(code: &str, input: &[u8], budget: Option<usize>, refuse_at: usize, refuse_how: u8, no_input: bool, in_fail_at: usize, in_fail_how: u8) -> (Vec<Ev>, bool, Vec<u64>) {
    let log = Rc::new(RefCell::new(Vec::new()));
    let reader: Option<Box<dyn Read>> = if no_input { None } else { Some(Box::new(LogRead { data: input.to_vec(), pos: 0, fail_at: in_fail_at, fail_how: in_fail_how, n: 0, log: log.clone() })) };
    let writer: Option<Box<dyn Write>> = Some(Box::new(LogWrite { refuse_at, refuse_how, n: 0, log: log.clone() }));
    let mut cxt = Context::<C>::new(reader, writer);
    // every program of the enumeration is balanced: an error return or a panic is a failure, recorded
    // as an impossible event so that every comparison with the canonical log fails
    let run = std::panic::catch_unwind(std::panic::AssertUnwindSafe(|| {
        let exec = InplaceInterpreter::<C>::create(code, 0)?;
        match budget {
            None => exec.execute(&mut cxt).map(|_| true),
            Some(b) => {
                cxt.budget = b;
                exec.execute_limited(&mut cxt)
            }
        }
    }));
    let fin = match run {
        Ok(Ok(f)) => f,
        Ok(Err(_)) => {
            log.borrow_mut().push(Ev::Failed("returned an error on a balanced program"));
            true
        }
        Err(_) => {
            log.borrow_mut().push(Ev::Failed("panicked"));
            true
        }
    };
    let view: Vec<u64> = (0..17).map(|i| cxt.memory.read(i - 8).into_u64()).collect();
    drop(cxt);
    let ev = log.borrow().clone();
    (ev, fin, view)
}

fn one<C: CellType>(code: &str, t: &mut [Tally; 3], w: &str) {
    let bytes = code.as_bytes();
    if code.len() < 40 {
        println!("N7CASE {} program {:?}", w, code);
    } else {
        println!("N7CASE {} program of {} bytes starting {:?}", w, code.len(), &code[..20]);
    }
    for input in [&[][..], &[3u8, 0, 255, 1][..]] {
        let (cev, halted, cview) = canon(bytes, input, C::BITS, 300_000, usize::MAX, false);
        if halted {
            let (ev, _, view) = real::<C>(code, input, None, usize::MAX, false);
            if !cev.is_empty() || cview.iter().any(|&x| x != 0) {
                t[0].nontrivial += 1;
            }
            t[0].check(ev == cev && view == cview, || format!("{} program {:?} input {:?}: events {:?}, canonical {:?}; tape {:?}, canonical {:?}", w, code, input, ev, cev, view, cview));
        }
        for b in [0usize, 1, 3, 10, 100] {
            let (ev, fin, _) = real::<C>(code, input, Some(b), usize::MAX, false);
            let prefix = ev.len() <= cev.len() && ev[..] == cev[..ev.len()];
            if !fin {
                t[1].nontrivial += 1;
            }
            t[1].check(prefix && (!fin || (halted && ev == cev)), || format!("{} program {:?} input {:?} budget {}: finished={} events {:?}, canonical {:?} (halted={})", w, code, input, b, fin, ev, cev, halted));
        }
        if halted {
            for refuse in [0usize, 1, 2] {
                let (fev, _, _) = canon(bytes, input, C::BITS, 300_000, refuse, false);
                let (ev, _, _) = real::<C>(code, input, None, refuse, false);
                if fev != cev {
                    t[2].nontrivial += 1;
                }
                t[2].check(ev == fev, || format!("{} program {:?} input {:?}, output byte {} refused: events {:?}, canonical {:?}", w, code, input, refuse, ev, fev));
            }
            let (fev, _, _) = canon(bytes, input, C::BITS, 300_000, usize::MAX, true);
            let (ev, _, _) = real::<C>(code, input, None, usize::MAX, true);
            t[2].check(ev == fev, || format!("{} program {:?}, no input source: events {:?}, canonical {:?}", w, code, ev, fev));
            // refusals / failures that are errors of various kinds (a retrying helper must not be used)
            if bytes.len() <= 4 {
                for how in 1..=5u8 {
                    let (fev, _, _) = canon(bytes, input, C::BITS, 300_000, 1, false);
                    let (ev, _, _) = real2::<C>(code, input, None, 1, how, false, usize::MAX, 0);
                    t[2].check(ev == fev, || format!("{} program {:?} input {:?}, output byte 1 refused with error kind #{}: events {:?}, canonical {:?}", w, code, input, how, ev, fev));
                    let (fev, _, _) = canon(bytes, input, C::BITS, 300_000, 0, false);
                    let (ev, _, _) = real2::<C>(code, input, None, 0, how, false, usize::MAX, 0);
                    t[2].check(ev == fev, || format!("{} program {:?} input {:?}, output byte 0 refused with error kind #{}: events {:?}, canonical {:?}", w, code, input, how, ev, fev));
                    let (fev, _, _) = canon2(bytes, input, C::BITS, 300_000, usize::MAX, 1);
                    let (ev, _, _) = real2::<C>(code, input, None, usize::MAX, 0, false, 1, how);
                    t[2].check(ev == fev, || format!("{} program {:?} input {:?}, input request 1 fails with error kind #{}: events {:?}, canonical {:?}", w, code, input, how, ev, fev));
                }
            }
        }
    }
}

fn programs() -> Vec<String> {
    let cmds = b"+-<>.,[]";
    let mut out = vec![String::new()];
    let mut cur: Vec<Vec<u8>> = vec![vec![]];
    for _ in 0..VERIF_PARAM_MAXLEN {
        let mut next = Vec::new();
        for p in &cur {
            for &c in cmds {
                let mut q = p.clone();
                q.push(c);
                next.push(q);
            }
        }
        for q in &next {
            if balanced(q) {
                out.push(String::from_utf8(q.clone()).unwrap());
            }
        }
        cur = next;
    }
    // comments and non-ASCII text are ignored: every balanced program of <= 4 commands with a
    // multi-byte character (2, 3 and 4 bytes in UTF-8) inserted at every position
    out.push("+a+ü+[ - ]x.".to_string());
    let short: Vec<String> = out.iter().filter(|p| p.len() >= 2 && p.len() <= 4).cloned().collect();
    for p in &short {
        for (k, ins) in ["é", "€", "😀"].iter().enumerate() {
            for at in 0..=p.len() {
                if (at + k) % 2 == 0 || p.contains('[') {
                    let mut q = p.clone();
                    q.insert_str(at, ins);
                    out.push(q);
                }
            }
        }
    }
    // long runs of one command, with the high bits observed
    for n in [255usize, 256, 257, 511, 512, 65535, 65536, 65537] {
        out.push(format!("{}[[-]>+<]>.", "+".repeat(n)));
        out.push(format!("{}[[+]>+<]>.", "-".repeat(n)));
        out.push(format!("{}>{}[[-]>+<]>.", "+".repeat(n), "-".repeat(3)));
        if n < 60000 {
            out.push(format!("+{}{}.", ">".repeat(n), "<".repeat(n - 211)));
            out.push(format!("+{}{}.", "<".repeat(n), ">".repeat(n - 211)));
            out.push(format!("{}.{}", ".".repeat(3), ",".repeat(n % 7)));
        }
    }
    out
}

#[test]
fn verif_n7_all() {
    let mut t = [Tally { n: 0, nontrivial: 0, first: None }, Tally { n: 0, nontrivial: 0, first: None }, Tally { n: 0, nontrivial: 0, first: None }];
    let ps = programs();
    for p in &ps {
        one::<u8>(p, &mut t, "u8");
        one::<u16>(p, &mut t, "u16");
        if p.len() <= VERIF_PARAM_MAXLEN - 1 || p.len() > 100 {
            one::<u64>(p, &mut t, "u64");
        }
    }
    println!("N7: {} programs", ps.len());
    t[0].report("canonical");
    t[1].report("limited");
    t[2].report("io_failure");
}
