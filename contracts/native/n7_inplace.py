"""N7 `inplace` — BOUNDED native twin of unit u7_inplace (C04 / C07 / C08).  The Verus proof of
`InplaceInterpreter::execute_in` is unbounded but tied to the control-flow shape of the function: a
restructured interpreter loop (merged arms, run-length folding, another bracket search) makes the
proof UNDECIDED (lost anchor).  This stand-in gives a verdict then: the real interpreter is run
through the public API on every balanced program of <= 5 commands and on a family of long-run
programs (runs of 255 / 256 / 257 / 65535 / 65536 / 65537 identical commands), and its interleaved
input/output event log and final tape are compared with canonical Brainfuck semantics written out
in the test; limited runs must be a prefix and `finished` only with the complete log; I/O failures
stop the run at that event."""
import os

UNIT = "n7_inplace"
TEST_FILTER = "verif_n7_"
TIMEOUT = 900   # normal: 90 s quick / 170 s thorough; a hang of the interpreter on a halting program is reported as a failure
RELEASE = True
TRUSTED = ["canonical Brainfuck semantics as written in the test (the same definition unit u7_inplace proves against)",
           "BOUNDED: all balanced programs of <= 5 commands; long-run family; two input streams; u8, u16, u64; budgets 0, 1, 3, 10, 100; output refused at byte 0 / 1 / 2"]
HERE = os.path.dirname(os.path.abspath(__file__))


def overlay(tier, seed=0):
    return [{"src": "n7_inplace.rs", "dest": "src/exec/verif_n7_inplace.rs", "mod_in": "src/exec/inplace.rs", "mod_name": "verif_n7", "params": {"MAXLEN": 5 if tier == "quick" else 6}}]


def obligations(tier, seed):
    b = "BOUNDED (native enumeration): all balanced programs of <= 5 commands + long-run family, 2 input streams, u8 / u16 / u64"
    def o(i, clause, props):
        return {"id": i, "function": "InplaceInterpreter::{execute, execute_limited} (execute_in::<false>, execute_in::<true>)", "clause": clause, "properties": props,
                "bounded_by": b, "complete_over": "the enumerated programs x inputs x widths"}
    return [
        o("canonical", "event log (input requests and output bytes, interleaved) and final tape equal canonical semantics whenever the canonical run halts", ["C04"]),
        o("limited", "limited run: the event log is a prefix of the canonical one; `finished` only with the complete log; returns for every budget", ["C07", "C04"]),
        o("io_failure", "a refused output byte / an absent input source ends the run at that event: nothing is emitted or requested afterwards, no panic", ["C08", "C04"]),
    ]
