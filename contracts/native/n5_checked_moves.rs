// N5 — checked moves and scans of the bytecode interpreter, run under Miri (see n5_checked_moves.py).
#![allow(dead_code)]
use super::*;
use crate::runtime::Context;
use std::alloc::{alloc_zeroed, dealloc, Layout};
use std::mem;

const R: isize = 60;

unsafe fn mk_cxt<C: CellType>(min: isize, max: isize, context: Context<'static, C>) -> (*mut OpsContext<'static, C>, Layout) {
    // as BcInterpreter::build_context allocates it (two spill slots for r0 / r1)
    let layout = Layout::from_size_align(mem::size_of::<OpsContext<C>>() + mem::size_of::<C>() * 2, mem::align_of::<OpsContext<C>>()).unwrap();
    let cxt = alloc_zeroed(layout) as *mut OpsContext<C>;
    assert!(!cxt.is_null());
    ptr::addr_of_mut!((*cxt).min_accessed).write(min);
    ptr::addr_of_mut!((*cxt).max_accessed).write(max);
    ptr::addr_of_mut!((*cxt).context).write(context);
    (cxt, layout)
}

struct Tally {
    n: usize,
    nontrivial: usize,
    first: Option<String>,
}

/// one op on one configuration; `scan`: Some(cond) for scans
unsafe fn case<C: CellType>(t: &mut Tally, w: &str, lo: isize, hi: isize, wmin: isize, wmax: isize, shift: isize, scan: Option<isize>, cells: &[(isize, u8)]) {
    let what = format!("{} tape [{}, {}) window [{}, {}] {} {}{} cells {:?}", w, lo, hi, wmin, wmax,
        if scan.is_some() { "scan stride" } else { "mov" }, shift, if let Some(c) = scan { format!(" cond [{}]", c) } else { String::new() }, cells);
    println!("N5CASE {}", what);
    let mut context = Context::<C>::without_io();
    context.memory.make_accessible(lo, hi);
    for &(i, v) in cells {
        assert!(lo <= i && i < hi);
        context.memory.write(i, C::from_u8(v));
    }
    let before: Vec<C> = (-R..R).map(|i| context.memory.read(i)).collect();
    let view = |i: isize| if -R <= i && i < R { before[(i + R) as usize] } else { C::ZERO };
    let (size0, _) = (context.memory.check(lo), ());
    let _ = size0;
    // expected displacement
    let moved = match scan {
        None => shift,
        Some(c) => {
            let mut k = 0;
            while view(c + k * shift) != C::ZERO {
                k += 1;
                assert!(k < 50);
            }
            k * shift
        }
    };
    let (cxt, layout) = mk_cxt::<C>(wmin, wmax, context);
    let left = shift < 0;
    let f: Op<C> = match (scan.is_some(), left) {
        (false, true) => movl::<C, true>,
        (false, false) => movr::<C, true>,
        (true, true) => scanl::<C, true>,
        (true, false) => scanr::<C, true>,
    };
    let code: [OpCode<C>; 4] = match scan {
        None => [OpCode { op: f }, OpCode { off: shift }, OpCode { op: ret }, OpCode { op: ret }],
        Some(c) => [OpCode { op: f }, OpCode { off: c }, OpCode { off: shift }, OpCode { op: ret }],
    };
    let n = if scan.is_some() { 3 } else { 2 };
    let mem0 = (*cxt).context.memory.current_ptr();
    let ip = f(cxt, mem0, code.as_ptr(), C::from_u8(7), C::from_u8(9));
    let mut errs: Vec<String> = Vec::new();
    if ip != code.as_ptr().add(n) {
        errs.push("instruction pointer not advanced past the operands".to_string());
    }
    {
        let memory = &mut (*cxt).context.memory;
        for i in -R + 45..R - 45 {
            let got = memory.read(i);
            if got != view(i + moved) {
                errs.push(format!("cell at new offset {} reads {:?}, expected {:?} (pointer should have moved by {})", i, got, view(i + moved), moved));
                break;
            }
        }
        // the window around the new pointer is dereferenceable (Miri checks the accesses) and holds the view
        let p = memory.current_ptr();
        for k in wmin..=wmax {
            if !memory.check(k) {
                errs.push(format!("window offset {} not accessible after the op", k));
                break;
            }
            let got = *p.offset(k);
            if got != view(k + moved) {
                errs.push(format!("window cell {} holds {:?}, expected {:?}", k, got, view(k + moved)));
                break;
            }
        }
    }
    if *temps_ptr(cxt).add(0) != C::from_u8(7) || *temps_ptr(cxt).add(1) != C::from_u8(9) {
        errs.push("r0 / r1 not spilled".to_string());
    }
    t.n += 1;
    if moved != 0 && (moved + wmin < lo || moved + wmax >= hi) {
        t.nontrivial += 1; // the move had to grow the tape
    }
    if !errs.is_empty() && t.first.is_none() {
        t.first = Some(format!("{}: {}", what, errs.join("; ")));
    }
    ptr::drop_in_place(ptr::addr_of_mut!((*cxt).context));
    dealloc(cxt as *mut u8, layout);
}

const GEOS: [(isize, isize); 5] = [(0, 1), (-1, 2), (-3, 1), (0, 4), (-2, 3)];
const WINDOWS: [(isize, isize); 5] = [(0, 0), (-1, 1), (-1, 0), (0, 2), (-2, 0)];

fn report(t: &Tally, id: &str) {
    match &t.first {
        None => println!("NATIVE {} OK cases={} nontrivial={}", id, t.n, t.nontrivial),
        Some(f) => println!("NATIVE {} FAIL cases={} nontrivial={} first={}", id, t.n, t.nontrivial, f),
    }
}

fn movs<C: CellType>(t: &mut Tally, w: &str) {
    for (lo, hi) in GEOS {
        for (wmin, wmax) in WINDOWS {
            if wmin < lo || wmax >= hi {
                continue;
            }
            let cells: Vec<(isize, u8)> = (lo..hi).map(|i| (i, (40 + i) as u8)).collect();
            for s in [1isize, 2, 3, 7, 40] {
                unsafe {
                    case::<C>(t, w, lo, hi, wmin, wmax, s, None, &cells);
                    case::<C>(t, w, lo, hi, wmin, wmax, -s, None, &cells);
                }
            }
        }
    }
}

#[test]
fn verif_n5_mov() {
    let mut t = Tally { n: 0, nontrivial: 0, first: None };
    movs::<u8>(&mut t, "u8");
    movs::<u32>(&mut t, "u32");
    report(&t, "mov_checked");
}

fn scans<C: CellType>(t: &mut Tally, w: &str) {
    for (lo, hi) in GEOS {
        for (wmin, wmax) in WINDOWS {
            if wmin < lo || wmax >= hi {
                continue;
            }
            for stride in [1isize, 2, 3, -1, -2, -3] {
                for cond in wmin..=wmax {
                    for run in 0..5isize {
                        // non-zero condition cells at cond, cond + stride, ... (as far as the tape reaches)
                        let mut cells: Vec<(isize, u8)> = Vec::new();
                        let mut full = true;
                        for j in 0..run {
                            let i = cond + j * stride;
                            if lo <= i && i < hi {
                                cells.push((i, (1 + j) as u8));
                            } else {
                                full = false;
                            }
                        }
                        if !full && run > 0 && cells.len() as isize != run {
                            // the run does not fit on this tape: the shorter run is another iteration
                            continue;
                        }
                        // an unrelated non-zero cell that must survive the reallocations
                        let keep = if cond != lo { lo } else { hi - 1 };
                        if !cells.iter().any(|c| c.0 == keep) && (keep - cond) % stride != 0 {
                            cells.push((keep, 200));
                        }
                        unsafe {
                            case::<C>(t, w, lo, hi, wmin, wmax, stride, Some(cond), &cells);
                        }
                    }
                }
            }
        }
    }
}

#[test]
fn verif_n5_scan() {
    let mut t = Tally { n: 0, nontrivial: 0, first: None };
    scans::<u8>(&mut t, "u8");
    scans::<u32>(&mut t, "u32");
    report(&t, "scan_checked");
}
