// N2 — bounded native checks of the bytecode-generator passes (see n2_bc_passes.py).
#![allow(dead_code)]
use super::*;
use crate::smallvec::SmallVec;

const NPROG: usize = VERIF_PARAM_NPROG;
const SEED: u64 = VERIF_PARAM_SEED;
const W: isize = 48; // modelled tape: cells -W..W around the start position

#[derive(Clone, PartialEq)]
struct St<C: CellType> {
    cells: Vec<C>,
    ptr: isize,
    temps: Vec<C>,
    out: Vec<u8>,
    inputs: usize,
    oob: bool,
}

impl<C: CellType> St<C> {
    fn new(init: &[C], temps: usize) -> Self {
        let mut cells = vec![C::ZERO; 2 * W as usize + 1];
        for (i, v) in init.iter().enumerate() {
            cells[(W - 2) as usize + i] = *v; // cells -2..
        }
        St { cells, ptr: 0, temps: vec![C::from_u8(0x5a); temps.max(16)], out: Vec::new(), inputs: 0, oob: false }
    }
    fn get(&mut self, off: isize) -> C {
        let i = self.ptr + off + W;
        if i < 0 || i >= self.cells.len() as isize {
            self.oob = true;
            return C::ZERO;
        }
        self.cells[i as usize]
    }
    fn set(&mut self, off: isize, v: C) {
        let i = self.ptr + off + W;
        if i < 0 || i >= self.cells.len() as isize {
            self.oob = true;
            return;
        }
        self.cells[i as usize] = v;
    }
    /// the k-th input byte of the fixed input stream (end of input after 5 bytes)
    fn next_input(&mut self) -> C {
        let k = self.inputs;
        self.inputs += 1;
        if k < 5 { C::from_u8([3u8, 0, 255, 2, 7][k]) } else { C::ZERO }
    }
    fn read(&mut self, l: Loc<C>) -> C {
        match l {
            Loc::Mem(m) => self.get(m),
            Loc::MemZero(m) => {
                let v = self.get(m);
                self.set(m, C::ZERO);
                v
            }
            Loc::Tmp(t) => self.temps[t],
            Loc::Imm(v) => v,
        }
    }
    fn write(&mut self, l: Loc<C>, v: C) {
        match l {
            Loc::Mem(m) => self.set(m, v),
            Loc::Tmp(t) => self.temps[t] = v,
            _ => self.oob = true,
        }
    }
}

/// bc_step iterated; None when the step budget runs out or the modelled tape is left
fn run_bc<C: CellType>(insts: &[Instr<C>], st: &mut St<C>, mut budget: usize) -> Option<()> {
    let mut pc: usize = 0;
    while pc < insts.len() {
        if budget == 0 || st.oob {
            return None;
        }
        budget -= 1;
        match insts[pc] {
            Instr::Noop => {}
            Instr::Scan(c, s) => {
                let mut n = 0;
                while st.get(c) != C::ZERO {
                    st.ptr += s;
                    n += 1;
                    if n > 2 * W || st.oob {
                        return None;
                    }
                }
            }
            Instr::Mov(s) => st.ptr += s,
            Instr::Inp(d) => {
                let v = st.next_input();
                st.set(d, v);
            }
            Instr::Out(s) => {
                let v = st.get(s);
                st.out.push(v.into_u8());
            }
            Instr::BrZ(c, off) => {
                if st.get(c) == C::ZERO {
                    pc = pc.wrapping_add_signed(off);
                    continue;
                }
            }
            Instr::BrNZ(c, off) => {
                if st.get(c) != C::ZERO {
                    pc = pc.wrapping_add_signed(off);
                    continue;
                }
            }
            Instr::Add(d, a, b) => {
                let x = st.read(a);
                let y = st.read(b);
                st.write(d, x.wrapping_add(y));
            }
            Instr::Sub(d, a, b) => {
                let x = st.read(a);
                let y = st.read(b);
                st.write(d, x.wrapping_add(y.wrapping_neg()));
            }
            Instr::Mul(d, a, b) => {
                let x = st.read(a);
                let y = st.read(b);
                st.write(d, x.wrapping_mul(y));
            }
            Instr::Copy(d, a) => {
                let x = st.read(a);
                st.write(d, x);
            }
        }
        pc += 1;
    }
    if st.oob { None } else { Some(()) }
}

struct Tally {
    n: usize,
    skipped: usize,
    /// cases in which the function under test did something (the pass rewrote the sequence, the
    /// generated program contains a fused zeroing operand / a temporary, ...): the vacuity guard
    nontrivial: usize,
    first: Option<String>,
}
impl Tally {
    fn new() -> Self {
        Tally { n: 0, skipped: 0, nontrivial: 0, first: None }
    }
    fn check(&mut self, ok: bool, what: impl FnOnce() -> String) {
        self.n += 1;
        if !ok && self.first.is_none() {
            self.first = Some(what());
        }
    }
    fn report(&self, id: &str) {
        match &self.first {
            None => println!("NATIVE {} OK cases={} nontrivial={}", id, self.n, self.nontrivial),
            Some(f) => println!("NATIVE {} FAIL cases={} nontrivial={} first={}", id, self.n, self.nontrivial, f.replace('\n', " ")),
        }
    }
}

fn fresh_codegen<C: CellType>(insts: Vec<Instr<C>>) -> CodeGen<C> {
    let n = insts.len();
    CodeGen {
        min_accessed: -2, max_accessed: 3, writes: HashMap::new(), ranges: Vec::new(), exprs: Vec::new(), values: HashMap::new(),
        insts, live: vec![0; n], is_target: Vec::new(), current_start: 0, outer_accessed: Vec::new(),
    }
}

fn start_states<C: CellType>() -> Vec<[C; 2]> {
    let vals = [C::ZERO, C::ONE, C::from_u8(5), C::NEG_ONE];
    let mut v = Vec::new();
    for a in vals {
        for b in vals {
            v.push([a, b]);
        }
    }
    v
}

/// the pass on `seq` preserves bc_step behaviour from every start state (cells 0 and 1, temp 2)
fn zeroing_case<C: CellType>(seq: &[Instr<C>], t: &mut Tally, budget: usize) {
    let mut cg = fresh_codegen(seq.to_vec());
    cg.record_branch_targets();
    cg.zeroing_move_detection();
    let after = cg.insts;
    // syntactic part: same length; only Mem -> MemZero rewrites and zeroing Copy -> Noop
    let mut shape_ok = after.len() == seq.len();
    if shape_ok {
        for (a, b) in seq.iter().zip(after.iter()) {
            let unzero = |l: Loc<C>| if let Loc::MemZero(m) = l { Loc::Mem(m) } else { l };
            let same = match (*a, *b) {
                (Instr::Copy(Loc::Mem(_), Loc::Imm(z)), Instr::Noop) => z == C::ZERO,
                (Instr::Add(d, x, y), Instr::Add(d2, x2, y2)) | (Instr::Sub(d, x, y), Instr::Sub(d2, x2, y2)) | (Instr::Mul(d, x, y), Instr::Mul(d2, x2, y2)) =>
                    d == d2 && x == unzero(x2) && y == unzero(y2),
                (Instr::Copy(d, x), Instr::Copy(d2, x2)) => d == d2 && x == unzero(x2),
                (p, q) => p == q,
            };
            shape_ok = shape_ok && same;
        }
    }
    t.check(shape_ok, || format!("pass rewrote {:?} into {:?}", seq, after));
    if after.as_slice() != seq {
        t.nontrivial += 1;
    }
    for init in start_states::<C>() {
        let mut s0 = St::new(&[C::ZERO, C::ZERO, init[0], init[1]], 16);
        s0.temps[2] = C::from_u8(9);
        let mut s1 = s0.clone();
        let r0 = run_bc(seq, &mut s0, budget);
        let r1 = run_bc(&after, &mut s1, budget);
        if r0.is_none() {
            t.skipped += 1;
            continue;
        }
        t.check(r1.is_some() && s0 == s1, || format!("{:?} became {:?}: differs from cells [0]={:?} [1]={:?}", seq, after, init[0], init[1]));
    }
}

/// dead_store_elim on `seq` (use counts of the temporaries as emit_block records them): the cells and
/// the output are the same from every start state (temporaries are not observable)
fn dse_case<C: CellType>(seq: &[Instr<C>], t: &mut Tally) {
    let mut cg = fresh_codegen(seq.to_vec());
    let mut uses = [0usize; 16];
    for i in seq {
        let srcs: Vec<Loc<C>> = match *i {
            Instr::Add(_, a, b) | Instr::Sub(_, a, b) | Instr::Mul(_, a, b) => vec![a, b],
            Instr::Copy(_, a) => vec![a],
            _ => vec![],
        };
        for s in srcs {
            if let Loc::Tmp(k) = s {
                uses[k] += 1;
            }
        }
    }
    for k in 0..16 {
        cg.ranges.push(RangeInfo { created: 0, first_use: None, last_use: None, num_uses: uses[k] });
    }
    cg.dead_store_elim();
    let after = cg.insts;
    let mut shape_ok = after.len() == seq.len();
    if shape_ok {
        for (a, b) in seq.iter().zip(after.iter()) {
            shape_ok = shape_ok && (a == b || (*b == Instr::Noop && !matches!(a, Instr::Out(_) | Instr::Inp(_) | Instr::BrZ(..) | Instr::BrNZ(..) | Instr::Mov(_) | Instr::Scan(..))));
        }
    }
    t.check(shape_ok, || format!("dead_store_elim rewrote {:?} into {:?}", seq, after));
    if after.as_slice() != seq {
        t.nontrivial += 1;
    }
    for init in start_states::<C>() {
        let mut s0 = St::new(&[C::ZERO, C::ZERO, init[0], init[1]], 16);
        s0.temps[2] = C::from_u8(9);
        s0.temps[3] = C::from_u8(4);
        let mut s1 = s0.clone();
        let r0 = run_bc(seq, &mut s0, 60);
        let r1 = run_bc(&after, &mut s1, 60);
        if r0.is_none() {
            t.skipped += 1;
            continue;
        }
        s1.temps = s0.temps.clone();
        t.check(r1.is_some() && s0 == s1, || format!("dead_store_elim: {:?} became {:?}: differs from cells [0]={:?} [1]={:?}", seq, after, init[0], init[1]));
    }
}

fn dse_alphabet<C: CellType>() -> Vec<Instr<C>> {
    let dsts = [Loc::Mem(0), Loc::Mem(1), Loc::Tmp(2), Loc::Tmp(3)];
    let srcs = [Loc::Mem(0), Loc::Mem(1), Loc::Tmp(2), Loc::Imm(C::from_u8(3))];
    let mut a = Vec::new();
    for d in dsts {
        for x in srcs {
            a.push(Instr::Copy(d, x));
            for y in srcs {
                a.push(Instr::Add(d, x, y));
            }
        }
    }
    a.push(Instr::Out(0));
    a.push(Instr::Inp(1));
    a.push(Instr::Copy(Loc::Mem(0), Loc::Tmp(3)));
    a
}

#[test]
fn verif_n2_dse() {
    let mut t = Tally::new();
    let al = dse_alphabet::<u8>();
    for a in &al {
        dse_case(&[*a], &mut t);
        for b in &al {
            dse_case(&[*a, *b], &mut t);
            for c in &al {
                dse_case(&[*a, *b, *c], &mut t);
            }
            // a dead store must not be removed across a branch, a branch target, a move or a scan
            dse_case(&[*a, Instr::BrZ(1, 2), *b, Instr::Out(0)], &mut t);
            dse_case(&[*a, Instr::Mov(1), *b, Instr::Mov(-1), Instr::Out(0)], &mut t);
            dse_case(&[Instr::BrZ(1, 2), *a, *b, Instr::Out(0), Instr::Out(1)], &mut t);
        }
    }
    t.report("dead_store_seq");
}

fn alphabet<C: CellType>(small: bool) -> Vec<Instr<C>> {
    let dsts = [Loc::Mem(0), Loc::Mem(1), Loc::Tmp(2)];
    let srcs = [Loc::Mem(0), Loc::Mem(1), Loc::Imm(C::ZERO), Loc::Imm(C::from_u8(3))];
    let mut a = Vec::new();
    for d in dsts {
        for x in srcs {
            a.push(Instr::Copy(d, x));
            if small && !matches!(x, Loc::Mem(_)) {
                continue;
            }
            for y in srcs {
                if small {
                    if matches!(y, Loc::Imm(_)) || matches!(d, Loc::Tmp(_)) {
                        continue;
                    }
                    a.push(Instr::Add(d, x, y));
                } else {
                    a.push(Instr::Add(d, x, y));
                    a.push(Instr::Mul(d, x, y));
                }
            }
        }
    }
    a.push(Instr::Out(0));
    a.push(Instr::Inp(1));
    if !small {
        a.push(Instr::Copy(Loc::Mem(0), Loc::Tmp(2)));
        a.push(Instr::Sub(Loc::Mem(1), Loc::Mem(1), Loc::Mem(0)));
    }
    a
}

#[test]
fn verif_n2_zeroing_seq() {
    let mut t = Tally::new();
    let al = alphabet::<u8>(false);
    for a in &al {
        zeroing_case(&[*a], &mut t, 10);
        for b in &al {
            zeroing_case(&[*a, *b], &mut t, 10);
            for c in &al {
                zeroing_case(&[*a, *b, *c], &mut t, 10);
            }
        }
    }
    // the pass is width-generic; the two-instruction sequences again at u64
    let al = alphabet::<u64>(false);
    for a in &al {
        for b in &al {
            zeroing_case(&[*a, *b], &mut t, 10);
        }
    }
    t.report("zeroing_seq");
}

#[test]
fn verif_n2_zeroing_loop() {
    let mut t = Tally::new();
    let al = alphabet::<u8>(true);
    for a in &al {
        for b in &al {
            for c in &al {
                for d in &al {
                    // a; if/while [0] { b; c }; d        (BrZ at 1 jumps past the BrNZ at 4; BrNZ jumps back to 2)
                    zeroing_case(&[*a, Instr::BrZ(0, 4), *b, *c, Instr::BrNZ(0, -2), *d], &mut t, 60);
                }
                // an `if` (no back edge): a; if [1] { b }; c
                zeroing_case(&[*a, Instr::BrZ(1, 2), *b, *c], &mut t, 60);
                zeroing_case(&[*a, Instr::Mov(1), *b, Instr::Mov(-1), *c], &mut t, 60);
                zeroing_case(&[*a, Instr::Scan(0, 1), *b, *c], &mut t, 60);
            }
        }
    }
    t.report("zeroing_loop");
}

// ------------------------------------------------------------------ translate, end to end

struct Rng(u64);
impl Rng {
    fn next(&mut self) -> u64 {
        // xorshift64*
        self.0 ^= self.0 >> 12;
        self.0 ^= self.0 << 25;
        self.0 ^= self.0 >> 27;
        self.0.wrapping_mul(0x2545F4914F6CDD1D)
    }
    fn below(&mut self, n: u64) -> u64 {
        (self.next() >> 33) % n
    }
}

const CELLS: [isize; 6] = [-2, -1, 0, 1, 2, 3];

fn gen_expr<C: CellType>(r: &mut Rng) -> Expr<C> {
    let consts = [C::ZERO, C::ONE, C::from_u8(2), C::NEG_ONE, C::from_u8(7)];
    // a third of the assignments are plain moves / constants / increments: what value numbering,
    // copy elimination and dead-store elimination feed on (park a value, overwrite, move it back)
    match r.below(9) {
        0 => return Expr::var(CELLS[r.below(6) as usize]),
        1 => return Expr::var(CELLS[r.below(3) as usize + 2]),
        2 => return Expr::val(consts[r.below(5) as usize]),
        3 => return Expr::var(CELLS[r.below(6) as usize]).add(Expr::val(consts[1 + r.below(4) as usize])),
        _ => {}
    }
    let mut e = Expr::val(consts[r.below(5) as usize]);
    let terms = r.below(5);
    for _ in 0..terms {
        let mut t = Expr::val(consts[1 + r.below(4) as usize]);
        let deg = 1 + r.below(2);
        for _ in 0..deg {
            t = t.mul(Expr::var(CELLS[r.below(6) as usize]));
        }
        e = e.add(t);
    }
    e
}

fn gen_block<C: CellType>(r: &mut Rng, depth: usize, len: usize, allow_shift: bool) -> Block<C> {
    let mut insts = Vec::new();
    for _ in 0..len {
        match r.below(if depth == 0 { 7 } else { 10 }) {
            0 => insts.push(ir::Instr::Output { src: CELLS[r.below(6) as usize] }),
            1 => insts.push(ir::Instr::Input { dst: CELLS[r.below(6) as usize] }),
            2..=6 => {
                let n = 1 + r.below(3) as usize;
                let mut used: Vec<isize> = Vec::new();
                let mut calcs: Vec<(isize, Expr<C>)> = Vec::new();
                for _ in 0..n {
                    let d = CELLS[r.below(6) as usize];
                    if !used.contains(&d) {
                        used.push(d);
                        calcs.push((d, gen_expr(r)));
                    }
                }
                calcs.sort_by_key(|c| c.0);
                insts.push(ir::Instr::Calc { calcs: SmallVec::from_vec(calcs) });
            }
            7 => {
                let cond = CELLS[r.below(6) as usize];
                let l = 1 + r.below(3) as usize;
                let block = gen_block(r, depth - 1, l, false);
                insts.push(ir::Instr::If { cond, block });
            }
            _ => {
                // a counted loop: the body decrements the condition cell at its end, so most terminate
                let cond = CELLS[r.below(6) as usize];
                let l = r.below(3) as usize;
                let mut block = gen_block(r, depth - 1, l, false);
                if r.below(4) != 0 {
                    block.insts.push(ir::Instr::Calc { calcs: SmallVec::with((cond, Expr::var(cond).add(Expr::val(C::NEG_ONE)))) });
                } else if allow_shift {
                    block.shift = if r.below(2) == 0 { 1 } else { -1 };
                }
                insts.push(ir::Instr::Loop { cond, block, once: false });
            }
        }
    }
    Block { shift: 0, insts }
}

/// IR semantics; None when the budget runs out or the modelled tape is left
fn run_ir<C: CellType>(b: &Block<C>, st: &mut St<C>, budget: &mut usize) -> Option<()> {
    for inst in &b.insts {
        if *budget == 0 || st.oob {
            return None;
        }
        *budget -= 1;
        match inst {
            ir::Instr::Output { src } => {
                let v = st.get(*src);
                st.out.push(v.into_u8());
            }
            ir::Instr::Input { dst } => {
                let v = st.next_input();
                st.set(*dst, v);
            }
            ir::Instr::Calc { calcs } => {
                let mut vals = Vec::new();
                for (_, e) in calcs.iter() {
                    let mut reads = Vec::new();
                    for v in e.variables() {
                        reads.push((v, st.get(v)));
                    }
                    vals.push(e.evaluate(|v| reads.iter().find(|x| x.0 == v).map(|x| x.1).unwrap_or(C::ZERO)));
                }
                for ((d, _), v) in calcs.iter().zip(vals) {
                    st.set(*d, v);
                }
            }
            ir::Instr::If { cond, block } => {
                if st.get(*cond) != C::ZERO {
                    run_ir(block, st, budget)?;
                    st.ptr += block.shift;
                }
            }
            ir::Instr::Loop { cond, block, once } => {
                if *once && st.get(*cond) == C::ZERO {
                    return None; // outside the IR's precondition
                }
                while st.get(*cond) != C::ZERO {
                    if *budget == 0 || st.oob {
                        return None;
                    }
                    *budget -= 1;
                    run_ir(block, st, budget)?;
                    st.ptr += block.shift;
                }
            }
        }
    }
    if st.oob { None } else { Some(()) }
}

fn shape_ok<C: CellType>(p: &Program<C>, fuse: bool) -> Result<(), String> {
    if !(p.min_accessed <= 0 && 0 <= p.max_accessed) {
        return Err(format!("window [{}, {}] does not contain 0", p.min_accessed, p.max_accessed));
    }
    if p.live.len() != p.insts.len() {
        return Err(format!("live.len() {} != insts.len() {}", p.live.len(), p.insts.len()));
    }
    let in_win = |m: isize| p.min_accessed <= m && m <= p.max_accessed;
    let loc = |l: Loc<C>, dst: bool| -> Result<(), String> {
        match l {
            Loc::Mem(m) if !in_win(m) => Err(format!("operand [{}] outside the window", m)),
            Loc::MemZero(m) if !in_win(m) || !fuse || dst => Err(format!("MemZero({}) misplaced", m)),
            Loc::Tmp(t) if t >= p.temps => Err(format!("temporary {} >= temps {}", t, p.temps)),
            Loc::Imm(_) if dst => Err("immediate destination".to_string()),
            _ => Ok(()),
        }
    };
    for (i, inst) in p.insts.iter().enumerate() {
        match *inst {
            Instr::Noop => return Err(format!("Noop left at {}", i)),
            Instr::Scan(c, _) | Instr::Inp(c) | Instr::Out(c) => {
                if !in_win(c) {
                    return Err(format!("operand [{}] outside the window at {}", c, i));
                }
            }
            Instr::Mov(_) => {}
            Instr::BrZ(c, off) | Instr::BrNZ(c, off) => {
                let t = i as isize + off;
                if !in_win(c) || t < 0 || t > p.insts.len() as isize {
                    return Err(format!("branch at {} to {} / condition [{}]", i, t, c));
                }
            }
            Instr::Add(d, a, b) | Instr::Sub(d, a, b) | Instr::Mul(d, a, b) => {
                loc(d, true)?;
                loc(a, false)?;
                loc(b, false)?;
            }
            Instr::Copy(d, a) => {
                loc(d, true)?;
                loc(a, false)?;
            }
        }
    }
    Ok(())
}

/// The `live` bitmaps the baseline JIT relies on (it saves exactly these registers around runtime
/// calls and may use the others as scratch): a register temporary whose value is needed after the
/// instruction and which the instruction does not itself define must be declared live across it.
/// Backward may-liveness over the control-flow graph of the bytecode; also: no temporary is read
/// on any path before it was written (definite assignment, forward must-analysis).
fn live_ok<C: CellType>(p: &Program<C>, regs: usize) -> Result<(), String> {
    let n = p.insts.len();
    let uses = |i: usize| -> u32 {
        let mut m = 0u32;
        let mut add = |l: Loc<C>| {
            if let Loc::Tmp(t) = l {
                if t < 32 {
                    m |= 1 << t;
                }
            }
        };
        match p.insts[i] {
            Instr::Add(_, a, b) | Instr::Sub(_, a, b) | Instr::Mul(_, a, b) => {
                add(a);
                add(b);
            }
            Instr::Copy(_, a) => add(a),
            _ => {}
        }
        m
    };
    let def = |i: usize| -> u32 {
        match p.insts[i] {
            Instr::Add(Loc::Tmp(t), _, _) | Instr::Sub(Loc::Tmp(t), _, _) | Instr::Mul(Loc::Tmp(t), _, _) | Instr::Copy(Loc::Tmp(t), _) if t < 32 => 1 << t,
            _ => 0,
        }
    };
    let succ = |i: usize| -> Vec<usize> {
        match p.insts[i] {
            Instr::BrZ(_, off) | Instr::BrNZ(_, off) => vec![i + 1, (i as isize + off) as usize],
            _ => vec![i + 1],
        }
    };
    // backward liveness
    let mut live_in = vec![0u32; n + 1];
    let mut changed = true;
    while changed {
        changed = false;
        for i in (0..n).rev() {
            let mut out = 0u32;
            for s in succ(i) {
                out |= live_in[s.min(n)];
            }
            let inn = uses(i) | (out & !def(i));
            if inn != live_in[i] {
                live_in[i] = inn;
                changed = true;
            }
        }
    }
    for i in 0..n {
        if matches!(p.insts[i], Instr::BrZ(..) | Instr::BrNZ(..)) {
            continue; // branches neither call the runtime nor use a scratch register: their bitmap is not consulted
        }
        let mut out = 0u32;
        for s in succ(i) {
            out |= live_in[s.min(n)];
        }
        // only the first `regs` temporaries are registers (the others live in memory and are not tracked)
        let must = out & !def(i) & 0xffff & ((1u32 << regs.min(16)) - 1);
        if must & !(p.live[i] as u32) != 0 {
            return Err(format!("instruction {} ({:?}): temporaries {:#x} are needed afterwards and not defined by it, but live = {:#x}", i, p.insts[i], must, p.live[i]));
        }
    }
    // definite assignment: nothing is live into the entry
    if live_in[0] != 0 {
        return Err(format!("temporaries {:#x} may be read before they are written", live_in[0]));
    }
    Ok(())
}

fn translate_cases<C: CellType>(seed: u64, n: usize, sem: &mut Tally, shape: &mut Tally, w: &str) {
    let mut r = Rng(seed | 1);
    let inits: [[u8; 6]; 6] = [[0; 6], [1, 2, 3, 4, 5, 6], [0, 255, 1, 0, 2, 128], [3, 0, 0, 1, 0, 0], [255; 6], [2, 1, 0, 5, 0, 1]];
    for k in 0..n {
        let len = 1 + r.below(6) as usize;
        let prog = gen_block::<C>(&mut r, 2, len, k % 3 == 0);
        for (regs, fuse) in [(2, true), (2, false), (11, true), (11, false)] {
            let bc = CodeGen::translate(&prog, regs, fuse);
            let sh = shape_ok(&bc, fuse);
            shape.check(sh.is_ok(), || format!("{} translate(regs={}, fuse={}) of {:?} gives {:?}: {}", w, regs, fuse, prog, bc, sh.clone().err().unwrap()));
            if sh.is_err() {
                continue;
            }
            let lv = live_ok(&bc, regs);
            shape.check(lv.is_ok(), || format!("{} translate(regs={}, fuse={}) of {:?} gives {:?}: {}", w, regs, fuse, prog, bc, lv.clone().err().unwrap()));
            if bc.temps > 2 && bc.insts.len() >= 3 {
                shape.nontrivial += 1;
            }
            let fused = bc.insts.iter().any(|i| match *i {
                Instr::Add(_, a, b) | Instr::Sub(_, a, b) | Instr::Mul(_, a, b) => matches!(a, Loc::MemZero(_)) || matches!(b, Loc::MemZero(_)),
                Instr::Copy(_, a) => matches!(a, Loc::MemZero(_)),
                _ => false,
            });
            for init in &inits {
                let cells: Vec<C> = init.iter().map(|&b| if b == 255 { C::NEG_ONE } else { C::from_u8(b) }).collect();
                let mut s0 = St::new(&cells, bc.temps);
                let mut s1 = s0.clone();
                let mut budget = 400;
                if run_ir(&prog, &mut s0, &mut budget).is_none() {
                    sem.skipped += 1;
                    continue;
                }
                // every IR step costs at most (number of bytecode instructions) bytecode steps: a
                // budget the bytecode cannot exhaust while the IR run stayed within its own
                let r1 = run_bc(&bc.insts, &mut s1, 400 * (bc.insts.len() + 4) + 1000);
                // temporaries are not observable
                s1.temps = s0.temps.clone();
                if fused || !s0.out.is_empty() {
                    sem.nontrivial += 1;
                }
                sem.check(r1.is_some() && s0 == s1, || {
                    format!("{} translate(regs={}, fuse={}) of {:?} gives {:?}: from cells[-2..=3]={:?} the IR yields out={:?} cells={:?} ptr={}, the bytecode out={:?} cells={:?} ptr={}{}",
                        w, regs, fuse, prog, bc, init, s0.out, &s0.cells[(W - 4) as usize..(W + 6) as usize], s0.ptr, s1.out,
                        &s1.cells[(W - 4) as usize..(W + 6) as usize], s1.ptr, if r1.is_none() { " (did not finish)" } else { "" })
                });
            }
        }
    }
}

#[test]
fn verif_n2_translate() {
    let mut sem = Tally::new();
    let mut shape = Tally::new();
    translate_cases::<u8>(SEED, NPROG, &mut sem, &mut shape, "u8");
    translate_cases::<u64>(SEED ^ 0xabcdef, NPROG / 3, &mut sem, &mut shape, "u64");
    println!("N2 translate: {} semantic cases ({} skipped: IR run over budget / off the modelled tape)", sem.n, sem.skipped);
    sem.report("translate_sem");
    shape.report("translate_shape");
}
