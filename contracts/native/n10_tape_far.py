"""N10 `tape_far` — BOUNDED native twin of unit u2_tape (C09) for the MAGNITUDES Kani's harnesses
cannot reach (their buffers have a handful of cells): sequences of `Memory` operations (write,
read, mov, make_accessible, check, set_current_ptr / current_ptr, check_ptr) with offsets and
ranges up to several million cells, against the abstract view (an unbounded all-zero tape as a
map).  After every step: every cell ever written reads back its value relative to the moved
pointer; a requested range is reported accessible; cells never written read 0."""
import os

UNIT = "n10_tape_far"
TEST_FILTER = "verif_n10_"
TIMEOUT = 1200
RELEASE = True
TRUSTED = ["the abstract view (a map from absolute cell index to value) in the test",
           "BOUNDED: generated operation sequences of length <= 7 (fixed pseudo-random sample + VERIF_SEED) with offsets from {0, +-1, +-7, +-1000, +-(2^20 - 1), +-2^20, +-(2^20 + 1), +-3 * 2^20}; u8, u16, u64"]
HERE = os.path.dirname(os.path.abspath(__file__))


def overlay(tier, seed=0):
    return [{"src": "n10_tape_far.rs", "dest": "src/verif_n10_tape_far.rs", "mod_in": "src/runtime.rs", "mod_name": "verif_n10",
             "params": {"NSEQ": 1500 if tier == "quick" else 12000, "SEED": 0x6A09E667F3BCC909 ^ (seed * 0x9E3779B97F4A7C15 & 0xFFFFFFFFFFFFFFFF)}}]


def obligations(tier, seed):
    return [{"id": "far_view", "function": "runtime::Memory::{write, read, mov, make_accessible, check, check_ptr, current_ptr, set_current_ptr, write_out_of_bounds}",
             "clause": "after every operation of a sequence: cells written keep their values (relative to the moved pointer), unwritten cells read 0, a range requested with make_accessible is reported accessible by check and by check_ptr, set_current_ptr(current_ptr() + k cells) moves like mov(k) inside the block",
             "properties": ["C09"], "bounded_by": "BOUNDED (pseudo-random sample): sequences of <= 7 operations with offsets up to 3 * 2^20 cells; u8, u16, u64",
             "complete_over": "the sample only"}]
