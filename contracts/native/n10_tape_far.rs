// N10 — Memory operations at magnitudes of millions of cells (see n10_tape_far.py).
#![allow(dead_code)]
use super::*;
use std::collections::HashMap;

const NSEQ: usize = VERIF_PARAM_NSEQ;
const SEED: u64 = VERIF_PARAM_SEED;

struct Rng(u64);
impl Rng {
    fn next(&mut self) -> u64 {
        self.0 ^= self.0 >> 12;
        self.0 ^= self.0 << 25;
        self.0 ^= self.0 >> 27;
        self.0.wrapping_mul(0x2545F4914F6CDD1D)
    }
    fn below(&mut self, n: u64) -> u64 {
        (self.next() >> 33) % n
    }
}

const M: isize = 1 << 20;
const OFFS: [isize; 15] = [0, 1, -1, 7, -7, 1000, -1000, M - 1, -(M - 1), M, -M, M + 1, -(M + 1), 3 * M, -3 * M];

fn seqs<C: CellType>(n: usize, seed: u64, w: &str, cases: &mut usize, first: &mut Option<String>) {
    let mut r = Rng(seed | 1);
    for _ in 0..n {
        let mut mem = Memory::<C>::new();
        let mut model: HashMap<isize, C> = HashMap::new();
        let mut pos: isize = 0; // absolute index of the logical pointer
        let mut trace: Vec<String> = Vec::new();
        let len = 1 + r.below(7) as usize;
        let mut total_span: isize = 0;
        let seq_no = *cases;
        for _ in 0..len {
            let o = OFFS[r.below(15) as usize];
            // keep the allocation below ~40 M cells
            if total_span + o.abs() > 12 * M {
                break;
            }
            println!("N10CASE {} sequence starting at check {}: {:?} then an operation at offset {}", w, seq_no, trace, o);
            match r.below(5) {
                0 => {
                    let v = C::from_u8(1 + r.below(250) as u8);
                    trace.push(format!("write({}, {:?})", o, v));
                    mem.write(o, v);
                    model.insert(pos + o, v);
                    total_span += o.abs();
                }
                1 => {
                    trace.push(format!("mov({})", o));
                    mem.mov(o);
                    pos += o;
                }
                2 => {
                    let e = o + 1 + r.below(5) as isize;
                    trace.push(format!("make_accessible({}, {})", o, e));
                    mem.make_accessible(o, e);
                    total_span += o.abs();
                    for q in [o, e - 1] {
                        *cases += 1;
                        let p = mem.current_ptr().wrapping_offset(q);
                        if (!mem.check(q) || !mem.check_ptr(p)) && first.is_none() {
                            *first = Some(format!("{} after {:?}: cell {} of the requested range is reported inaccessible (check={}, check_ptr={})", w, trace, q, mem.check(q), mem.check_ptr(p)));
                        }
                    }
                }
                3 => {
                    // pointer API inside the block: set_current_ptr(current_ptr + k) == mov(k)
                    if mem.check(o) && mem.check(0) {
                        trace.push(format!("set_current_ptr(current_ptr() + {})", o));
                        let p = mem.current_ptr().wrapping_offset(o);
                        mem.set_current_ptr(p);
                        pos += o;
                    }
                }
                _ => {
                    trace.push(format!("read({})", o));
                }
            }
            // the view: every cell ever written, and a few unwritten ones around the pointer
            for (&abs, &v) in model.iter() {
                *cases += 1;
                let got = mem.read(abs - pos);
                if got != v && first.is_none() {
                    *first = Some(format!("{} after {:?}: the cell written at absolute index {} reads {:?}, expected {:?} (pointer at {})", w, trace, abs, got, v, pos));
                }
            }
            for q in [o, o + 1, -o, 2, -2] {
                if !model.contains_key(&(pos + q)) {
                    *cases += 1;
                    let got = mem.read(q);
                    if got != C::ZERO && first.is_none() {
                        *first = Some(format!("{} after {:?}: the never-written cell at offset {} reads {:?}", w, trace, q, got));
                    }
                }
            }
        }
    }
}

#[test]
fn verif_n10_far() {
    let mut cases = 0;
    let mut first = None;
    seqs::<u8>(NSEQ, SEED, "u8", &mut cases, &mut first);
    seqs::<u16>(NSEQ / 2, SEED ^ 0x1111, "u16", &mut cases, &mut first);
    seqs::<u64>(NSEQ / 4, SEED ^ 0x2222, "u64", &mut cases, &mut first);
    match first {
        None => println!("NATIVE far_view OK cases={} nontrivial={}", cases, cases),
        Some(f) => println!("NATIVE far_view FAIL cases={} nontrivial={} first={}", cases, cases, f),
    }
}
