// N3 — bounded native enumeration for the Expr operations outside both verifiers (see n3_expr_ops.py).
#![allow(dead_code)]
use super::*;

fn coefs<C: CellType>() -> Vec<C> {
    let half = C::ONE.wrapping_shl(C::BITS - 1);
    vec![C::ONE, C::from_u8(2), C::from_u8(3), C::NEG_ONE, half, half.wrapping_add(C::ONE), C::from_u8(254)]
}
fn cells<C: CellType>() -> Vec<C> {
    let half = C::ONE.wrapping_shl(C::BITS - 1);
    vec![C::ZERO, C::ONE, C::from_u8(2), C::from_u8(3), C::from_u8(5), C::NEG_ONE, half, half.wrapping_add(C::NEG_ONE), C::from_u8(200)]
}

/// the enumerated family: constants, variables, linear and quadratic / cubic terms and their sums
fn family<C: CellType>() -> Vec<Expr<C>> {
    let x = Expr::<C>::var(0);
    let y = Expr::<C>::var(1);
    let mut atoms: Vec<Expr<C>> = vec![Expr::val(C::ZERO)];
    for c in coefs::<C>() {
        atoms.push(Expr::val(c));
        atoms.push(x.mul(Expr::val(c)));
        atoms.push(y.mul(Expr::val(c)));
        atoms.push(x.mul(&x).mul(Expr::val(c)));
        atoms.push(x.mul(&y).mul(Expr::val(c)));
        atoms.push(x.mul(&x).mul(&y).mul(Expr::val(c)));
    }
    let mut out = atoms.clone();
    // sums of two and of three atoms (a thinned product to keep the family at a few hundred members)
    for (i, a) in atoms.iter().enumerate() {
        for (j, b) in atoms.iter().enumerate() {
            if (i * 7 + j * 3) % 11 == 0 {
                out.push(a.add(b));
                if (i + j) % 5 == 0 {
                    out.push(a.add(b).add(&atoms[(i * j) % atoms.len()]));
                }
            }
        }
    }
    // (x + c)(y + d), (x + y)(x + y), (x + 1)(x + 3): products of sums
    for c in coefs::<C>() {
        let a = x.add(Expr::val(c));
        let b = y.add(Expr::val(c.wrapping_add(C::ONE)));
        out.push(a.mul(&b));
        out.push(a.mul(&a));
        out.push(x.add(&y).mul(x.add(&y)).mul(Expr::val(c)));
    }
    out
}

/// monomials that share one variable support ({x, y} resp. {x}) with every combination of boundary
/// coefficients: what the half-modulus normalisation pairs up (x*x == x mod 2)
fn family_support<C: CellType>() -> Vec<Expr<C>> {
    let x = Expr::<C>::var(0);
    let y = Expr::<C>::var(1);
    let xy = [x.mul(&y), x.mul(&x).mul(&y), x.mul(&y).mul(&y), x.mul(&x).mul(&y).mul(&y)];
    let xs = [x.clone(), x.mul(&x), x.mul(&x).mul(&x)];
    let cs = coefs::<C>();
    let mut out = Vec::new();
    for &a in &cs {
        for &b in &cs {
            for &c in &cs {
                out.push(xy[0].mul(Expr::val(a)).add(xy[1].mul(Expr::val(b))).add(xy[2].mul(Expr::val(c))));
                out.push(xs[0].mul(Expr::val(a)).add(xs[1].mul(Expr::val(b))).add(xs[2].mul(Expr::val(c))));
                out.push(xy[0].mul(Expr::val(a)).add(xs[1].mul(Expr::val(b))).add(xy[2].mul(Expr::val(c))).add(Expr::val(b)));
                for &d in &cs[..4] {
                    out.push(xy[0].mul(Expr::val(a)).add(xy[1].mul(Expr::val(b))).add(xy[2].mul(Expr::val(c))).add(xy[3].mul(Expr::val(d))));
                }
            }
        }
    }
    out
}

fn ev<C: CellType>(e: &Expr<C>, a: C, b: C) -> C {
    e.evaluate(|v| if v == 0 { a } else if v == 1 { b } else { C::ZERO })
}

struct Tally {
    n: usize,
    first: Option<String>,
}
impl Tally {
    fn check(&mut self, ok: bool, what: impl FnOnce() -> String) {
        self.n += 1;
        if !ok && self.first.is_none() {
            self.first = Some(what());
        }
    }
    fn report(&self, id: &str) {
        match &self.first {
            None => println!("NATIVE {} OK cases={} nontrivial={}", id, self.n, self.n),
            Some(f) => println!("NATIVE {} FAIL cases={} nontrivial={} first={}", id, self.n, self.n, f),
        }
    }
}

fn unary<C: CellType>(t: &mut [Tally; 6], w: &str) {
    let mut fam = family::<C>();
    fam.extend(family_support::<C>());
    // every monomial plus a constant (what const_inc_of / constant / identity have to tell apart)
    {
        let x = Expr::<C>::var(0);
        let y = Expr::<C>::var(1);
        let ms = [x.clone(), y.clone(), x.mul(&y), y.mul(&x), x.mul(&x), x.mul(&x).mul(&y), x.mul(Expr::val(C::from_u8(2))), x.mul(&y).mul(Expr::val(C::NEG_ONE))];
        for m in &ms {
            for c in [C::ZERO, C::ONE, C::from_u8(5), C::NEG_ONE] {
                fam.push(m.add(Expr::val(c)));
                fam.push(m.add(&y).add(Expr::val(c)));
            }
        }
    }
    let vals = cells::<C>();
    for e in &fam {
        let neg = e.neg();
        let half = e.half();
        let norm = e.clone().normalize();
        let inc = e.inc_of(0);
        let pinc = e.prod_inc_of(0);
        let prod = e.prod_of(0);
        // the observers unit u4 proves (bounded twin: a rewrite makes the shape-anchored proof undecided)
        let cinc = [e.const_inc_of(0), e.const_inc_of(1)];
        let konst = e.constant();
        let ident = e.identity();
        let cpart = e.constant_part();
        t[3].check(cpart == ev(e, C::ZERO, C::ZERO), || format!("{} constant_part of {:?} = {:?}", w, e, cpart));
        for &a in &vals {
            for &b in &vals {
                let v = ev(e, a, b);
                t[0].check(ev(&neg, a, b) == v.wrapping_neg(), || format!("{} neg of {:?} at [0]={:?} [1]={:?}", w, e, a, b));
                if let Some(h) = &half {
                    t[1].check(ev(h, a, b).wrapping_add(ev(h, a, b)) == v, || format!("{} half of {:?} at [0]={:?} [1]={:?}", w, e, a, b));
                }
                t[2].check(ev(&norm, a, b) == v, || format!("{} normalize of {:?} gives {:?}: differs at [0]={:?} [1]={:?}", w, e, norm, a, b));
                for (vi, ci) in cinc.iter().enumerate() {
                    if let Some(c) = ci {
                        let xv = if vi == 0 { a } else { b };
                        t[3].check(xv.wrapping_add(*c) == v, || format!("{} const_inc_of({}) of {:?} = Some({:?}) at [0]={:?} [1]={:?}", w, vi, e, c, a, b));
                    }
                }
                if let Some(c) = konst {
                    t[3].check(c == v, || format!("{} constant of {:?} = Some({:?}) at [0]={:?} [1]={:?}", w, e, c, a, b));
                }
                if let Some(vi) = ident {
                    t[3].check((if vi == 0 { a } else if vi == 1 { b } else { C::ZERO }) == v, || format!("{} identity of {:?} = Some({}) at [0]={:?} [1]={:?}", w, e, vi, a, b));
                }
                if let Some(r) = &inc {
                    t[3].check(a.wrapping_add(ev(r, a, b)) == v, || format!("{} inc_of(0) of {:?} = {:?} at [0]={:?} [1]={:?}", w, e, r, a, b));
                }
                if let Some((r, m)) = &pinc {
                    t[4].check(m.wrapping_mul(a).wrapping_add(ev(r, a, b)) == v, || format!("{} prod_inc_of(0) of {:?} = ({:?}, {:?}) at [0]={:?} [1]={:?}", w, e, r, m, a, b));
                }
                if let Some(r) = &prod {
                    t[5].check(a.wrapping_mul(ev(r, a, b)) == v, || format!("{} prod_of(0) of {:?} = {:?} at [0]={:?} [1]={:?}", w, e, r, a, b));
                }
            }
        }
    }
}

#[test]
fn verif_n3_unary() {
    let mut t = [Tally { n: 0, first: None }, Tally { n: 0, first: None }, Tally { n: 0, first: None },
        Tally { n: 0, first: None }, Tally { n: 0, first: None }, Tally { n: 0, first: None }];
    unary::<u8>(&mut t, "u8");
    unary::<u64>(&mut t, "u64");
    for (k, id) in ["neg", "half", "normalize", "inc_of", "prod_inc_of", "prod_of"].iter().enumerate() {
        t[k].report(id);
    }
}

/// the precondition of the proved inc_of / prod_inc_of contracts (unit u4_expr): at most one part
/// is the plain variable `v`
fn one_single<C: CellType>(e: &Expr<C>) -> bool {
    for v in [0isize, 1] {
        if e.parts.iter().filter(|p| p.vars.len() == 1 && p.vars[0] == v).count() > 1 {
            return false;
        }
    }
    true
}

fn binary<C: CellType>(tm: &mut Tally, ta: &mut Tally, w: &str) {
    let fam = family::<C>();
    let vals = cells::<C>();
    for (i, p) in fam.iter().enumerate() {
        for (j, q) in fam.iter().enumerate() {
            if (i + 3 * j) % VERIF_PARAM_PAIRMOD != 0 {
                continue; // quick tier: a quarter of all pairs; thorough: all
            }
            let m = p.mul(q);
            let s = p.add(q);
            tm.check(one_single(&m) && one_single(&m.clone().normalize()), || format!("{} ({:?}).mul({:?}) = {:?}: two parts are the same plain variable", w, p, q, m));
            ta.check(one_single(&s) && one_single(&s.clone().normalize()), || format!("{} ({:?}).add({:?}) = {:?}: two parts are the same plain variable", w, p, q, s));
            for &a in &vals {
                for &b in &vals {
                    tm.check(ev(&m, a, b) == ev(p, a, b).wrapping_mul(ev(q, a, b)), || format!("{} ({:?}).mul({:?}) = {:?} at [0]={:?} [1]={:?}", w, p, q, m, a, b));
                    ta.check(ev(&s, a, b) == ev(p, a, b).wrapping_add(ev(q, a, b)), || format!("{} ({:?}).add({:?}) = {:?} at [0]={:?} [1]={:?}", w, p, q, s, a, b));
                }
            }
        }
    }
}

#[test]
fn verif_n3_binary() {
    let mut tm = Tally { n: 0, first: None };
    let mut ta = Tally { n: 0, first: None };
    binary::<u8>(&mut tm, &mut ta, "u8");
    binary::<u64>(&mut tm, &mut ta, "u64");
    tm.report("mul");
    ta.report("add_sorted");
}

fn subst<C: CellType>(t: &mut Tally, w: &str) {
    let mut fam = family::<C>();
    // monomials of degree 3 and 4 with repeated variables in every position
    {
        let x = Expr::<C>::var(0);
        let y = Expr::<C>::var(1);
        let ms = [x.mul(&x).mul(&x), x.mul(&y).mul(&y), x.mul(&x).mul(&y).mul(&y), y.mul(&y).mul(&y), x.mul(&x).mul(&x).mul(&x), y.mul(&x).mul(&y), x.mul(&y).mul(&y).mul(&y)];
        for (k, m) in ms.iter().enumerate() {
            fam.push(m.clone());
            fam.push(m.mul(Expr::val(C::from_u8(3))).add(Expr::val(C::from_u8(5))));
            fam.push(m.add(&ms[(k + 2) % ms.len()]).add(&x));
        }
    }
    let vals = cells::<C>();
    // substitutions: [0] := s0, [1] := s1 with s0, s1 from a small set of expressions over [0], [1]
    let x = Expr::<C>::var(0);
    let y = Expr::<C>::var(1);
    let subs: Vec<Expr<C>> = vec![x.clone(), y.clone(), Expr::val(C::from_u8(3)), x.add(&y), x.add(Expr::val(C::ONE)),
        x.add(Expr::val(C::from_u8(3))), x.mul(&y), y.add(&y).add(Expr::val(C::NEG_ONE)), x.mul(Expr::val(C::from_u8(2))).add(&y)];
    for e in &fam {
        for s0 in &subs {
            for s1 in &subs {
                let r = e.symb_evaluate(|v| if v == 0 { Some(s0.clone()) } else if v == 1 { Some(s1.clone()) } else { None });
                let r = match r {
                    Some(r) => {
                        t.check(one_single(&r), || format!("{} {:?} with [0]:={:?}, [1]:={:?} gives {:?}: two parts are the same plain variable", w, e, s0, s1, r));
                        r
                    }
                    None => {
                        t.check(false, || format!("{} symb_evaluate returned None for {:?}", w, e));
                        continue;
                    }
                };
                for &a in &vals {
                    for &b in &vals {
                        let want = ev(e, ev(s0, a, b), ev(s1, a, b));
                        t.check(ev(&r, a, b) == want, || format!("{} {:?} with [0]:={:?}, [1]:={:?} gives {:?}: differs at [0]={:?} [1]={:?}", w, e, s0, s1, r, a, b));
                    }
                }
            }
        }
    }
}

#[test]
fn verif_n3_subst() {
    let mut t = Tally { n: 0, first: None };
    subst::<u8>(&mut t, "u8");
    subst::<u64>(&mut t, "u64");
    t.report("symb_evaluate");
}
