"""N8 `trip_counts` — BOUNDED native twin of unit u10_optloop (C14, consumer side): the trip count
the optimiser derives with wrapping_div / wrapping_inv (`OptRebuild::analyze_loop`) and the closed
forms built on it (`loop_motion`), observed END TO END through the public API: for every start
value m and every per-iteration increment inc of an 8-bit counting loop `m [ >+< inc ]`, the
optimised program (levels 1-3, IR interpreter and bytecode interpreter) must leave the number of
iterations -- the least k with m + k*inc == 0 (mod 2^w) -- in the neighbouring cell; when no such k
exists the loop is infinite and a limited run must not report `finished`.  Also at u16 / u32 / u64
for boundary (m, inc).  On the unchanged tree this adds nothing to the u10 proof; after a REWRITE
of analyze_loop, for which the shape-anchored proof is only UNDECIDED, it still gives a verdict."""
import os

UNIT = "n8_trip_counts"
TEST_FILTER = "verif_n8_"
TIMEOUT = 2400
RELEASE = True
TRUSTED = ["the arithmetic of the expected trip count in the test (least k by search, u128)",
           "BOUNDED: u8 all 256 x 255 (m, inc) pairs; wider widths with boundary pairs; optimisation levels 1..3; IR and bytecode interpreters"]
HERE = os.path.dirname(os.path.abspath(__file__))


def overlay(tier, seed=0):
    return [{"src": "n8_trip_counts.rs", "dest": "src/verif_n8_trip_counts.rs", "mod_in": "src/opt.rs", "mod_name": "verif_n8", "params": {}}]


def obligations(tier, seed):
    b = "BOUNDED (native enumeration): u8 all (start, increment) pairs; u16/u32/u64 boundary pairs; levels 1-3; IR + bytecode interpreter"
    return [
        {"id": "finite", "function": "opt::OptRebuild::{analyze_loop, loop_motion} through Program::optimize (+ CellType::{wrapping_div, wrapping_inv})",
         "clause": "a counting loop with a solvable congruence runs exactly least-k times: the optimised program prints k (and k*3 accumulated in a second cell)", "properties": ["C14"],
         "bounded_by": b, "complete_over": "the enumerated pairs x levels x back ends"},
        {"id": "infinite", "function": "opt::OptRebuild::analyze_loop through Program::optimize",
         "clause": "a counting loop whose congruence has no solution is infinite: a limited run of the optimised program does not report finished and prints nothing", "properties": ["C14"],
         "bounded_by": b, "complete_over": "the enumerated pairs x levels x back ends"},
    ]
