"""N4 `loop_motion` — BOUNDED STAND-IN (native enumeration) for the second consumer of the cell
arithmetic helpers named by C14: the closed forms in opt.rs `OptRebuild::loop_motion` (geometric
series through wrapping_pow / wrapping_div, arithmetic series through Expr::half), together with
`Expr::split_along`.  HashSet / HashMap parameters, iterator adapters and closures put the function
outside Verus and Kani.

Contract checked (the meaning of the triple [before, during, after] the caller relies on): doing
`var := before` once in front of the loop, `var := during` in every iteration and `var := after`
once behind it leaves `var` with the same value as doing `var := pending` in every iteration, for a
loop that runs exactly `loop_anal.expr` times, with the other pending variables advancing linearly
as `linear` says and the `constant` ones fixed."""
import os

UNIT = "n4_loop_motion"
TEST_FILTER = "verif_n4_"
TIMEOUT = 2400
RELEASE = True
TRUSTED = ["oracle: Expr::evaluate (proved in u4_expr) and plain iteration of the loop body",
           "BOUNDED: u8 exhaustive over the multiplier and the trip count (1..=255) with boundary increments; u64 / u16 with boundary values; loop bodies of the two shapes the function has closed forms for"]
HERE = os.path.dirname(os.path.abspath(__file__))


def overlay(tier, seed=0):
    return [{"src": "n4_loop_motion.rs", "dest": "src/verif_n4_loop_motion.rs", "mod_in": "src/opt.rs", "mod_name": "verif_n4", "params": {}}]


def obligations(tier, seed):
    def o(i, clause, b):
        return {"id": i, "function": "opt::OptRebuild::loop_motion (+ ir::Expr::{split_along, prod_inc_of, half}, CellType::{wrapping_pow, wrapping_div} as it uses them)",
                "clause": clause, "properties": ["C14"], "bounded_by": b, "complete_over": "the enumerated bodies x trip counts x start values"}
    return [
        o("geometric", "body x := mul*x + inc, trip count c constant: [before, during, after] reproduces c iterations of the body",
          "BOUNDED (native enumeration): u8 all 256 multipliers x all trip counts 1..=255 x 8 increments (constant and constant-variable); u16/u64 boundary multipliers, trip counts, increments"),
        o("arithmetic", "body x := x + k*y + l*z + m with y advancing linearly and z constant, trip count constant or a cell value: [before, during, after] reproduces the iterations",
          "BOUNDED (native enumeration): u8 boundary k, l, m, step of y, all trip counts 1..=255; u64 boundary values"),
    ]
