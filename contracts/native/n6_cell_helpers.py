"""N6 `cell_helpers` — BOUNDED native twin of unit u1_cell (C14).  The Verus proof is unbounded but
tied to the control-flow shape of the functions: a rewrite of a helper (another algorithm for the
inverse, a different loop) makes the proof UNDECIDED (lost anchor), never a verdict.  This stand-in
gives a verdict in that situation: the contracts of wrapping_div / wrapping_inv / wrapping_pow and
the conversions are evaluated natively, exhaustively at u8 and on boundary + pseudo-random operands
at 16 / 32 / 64 bits, against u128 reference arithmetic.  On the unchanged tree it adds nothing to
the proof and is never counted as one."""
import os

UNIT = "n6_cell_helpers"
TEST_FILTER = "verif_n6_"
TIMEOUT = 1800
RELEASE = True
TRUSTED = ["u128 reference arithmetic in the test",
           "BOUNDED: exhaustive at u8; ~80 boundary + 150 pseudo-random operands (all pairs) at u16/u32/u64"]
HERE = os.path.dirname(os.path.abspath(__file__))


def overlay(tier, seed=0):
    return [{"src": "n6_cell_helpers.rs", "dest": "src/verif_n6_cell_helpers.rs", "mod_in": "src/lib.rs", "mod_name": "verif_n6",
             "params": {"SEED": 0x243F6A8885A308D3 ^ (seed * 0x9E3779B97F4A7C15 & 0xFFFFFFFFFFFFFFFF), "NRAND": 150 if tier == "quick" else 700}}]


def obligations(tier, seed):
    b = "BOUNDED (native enumeration): u8 exhaustive; boundary + pseudo-random operands at u16, u32, u64"
    def o(i, fn, clause):
        return {"id": i, "function": fn, "clause": clause, "properties": ["C14"], "bounded_by": b, "complete_over": "all u8 operands; the enumerated operands at the wider widths"}
    return [
        o("div", "CellType::wrapping_div", "Some(x): x*d == n (mod 2^w) and x is the smallest such value; None: no solution exists"),
        o("inv", "CellType::wrapping_inv", "Some(i) exactly for odd values, and i*a == 1 (mod 2^w)"),
        o("pow", "CellType::wrapping_pow", "equals repeated multiplication (mod 2^w)"),
        o("conv", "CellType::{into_u64, from_u64, into_i64, from_u8, into_u8, from_i16, try_into_i16}", "zero / sign extension and truncation round-trip as documented"),
    ]
