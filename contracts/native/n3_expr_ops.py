"""N3 `expr_ops` — BOUNDED STAND-IN (native enumeration) for the ir::Expr operations neither verifier
can take (closures with captured mutation, iterator adapters, HashMap): mul, mul_parts (through
symb_evaluate), neg, half, normalize, symb_evaluate, inc_of, prod_inc_of, prod_of, split_along is
NOT included.  The oracle is `Expr::evaluate`, whose contract (== eval) is PROVED in unit u4_expr.

For the unary operations additionally every sum of 3-4 monomials sharing one variable support
(x*y, x*x*y, x*y*y, x*x*y*y / x, x*x, x*x*x) with all combinations of 7 boundary coefficients (~2400).
Enumerated: every expression of a generated family (sums and products of up to three factors
over two variables with coefficients from a boundary set, ~300 expressions), every pair of them for
binary operations, every assignment of the two variables over a boundary set of cell values; at
u8 and u64."""
import os

UNIT = "n3_expr_ops"
TEST_FILTER = "verif_n3_"
TIMEOUT = 2400
RELEASE = True
TRUSTED = ["oracle: Expr::evaluate (its contract is proved in unit u4_expr)",
           "BOUNDED: expression family of ~300 members over 2 variables, coefficients and cell values from boundary sets, widths u8 and u64"]
HERE = os.path.dirname(os.path.abspath(__file__))


def overlay(tier, seed=0):
    return [{"src": "n3_expr_ops.rs", "dest": "src/verif_n3_expr_ops.rs", "mod_in": "src/ir.rs", "mod_name": "verif_n3", "params": {"PAIRMOD": 4 if tier == "quick" else 1}}]


def obligations(tier, seed):
    b = "BOUNDED (native enumeration): generated expression family over 2 variables, boundary coefficients / cell values, u8 and u64"
    def o(i, fn, clause):
        return {"id": i, "function": fn, "clause": clause, "properties": ["C15"], "bounded_by": b, "complete_over": "the enumerated family x all enumerated assignments"}
    return [
        o("mul", "ir::Expr::mul", "value(a.mul(b)) == value(a) * value(b) (mod 2^bits); like terms stay collected in the result and its normalisation (at most one part is a given plain variable: the precondition of the proved inc_of / prod_inc_of)"),
        o("neg", "ir::Expr::neg", "value(a.neg()) == -value(a)"),
        o("half", "ir::Expr::half", "half() == Some(h) ==> 2 * value(h) == value(a); None only if some coefficient is odd"),
        o("normalize", "ir::Expr::normalize", "value(a.normalize()) == value(a)"),
        o("symb_evaluate", "ir::Expr::{symb_evaluate, mul_parts}", "value of the substitution result == value(a) under the assignment obtained by evaluating the substituted expressions; like terms stay collected"),
        o("inc_of", "ir::Expr::{inc_of, const_inc_of, constant, identity, constant_part}", "inc_of(x) == Some(r) ==> value(a) == rho(x) + value(r); const_inc_of(x) == Some(c) ==> value == rho(x) + c; constant() == Some(c) ==> value == c; identity() == Some(x) ==> value == rho(x); constant_part() == value at the all-zero assignment (the last four are proved in u4: bounded twin)"),
        o("prod_inc_of", "ir::Expr::prod_inc_of", "prod_inc_of(x) == Some((r, m)) ==> value(a) == m * rho(x) + value(r)"),
        o("prod_of", "ir::Expr::prod_of", "prod_of(x) == Some(r) ==> value(a) == rho(x) * value(r)"),
        o("add_sorted", "ir::Expr::add (on the results of mul / normalize, which may be unsorted)", "value(a.add(b)) == value(a) + value(b) also for operands produced by mul and normalize; like terms stay collected"),
    ]
