// N8 — trip counts of counting loops, end to end (see n8_trip_counts.py).
#![allow(dead_code)]
use crate::exec::{BcInterpreter, Executable, Executor, IrInterpreter};
use crate::runtime::Context;
use crate::CellType;

struct Tally {
    n: usize,
    first: Option<String>,
}
impl Tally {
    fn check(&mut self, ok: bool, what: impl FnOnce() -> String) {
        self.n += 1;
        if !ok && self.first.is_none() {
            self.first = Some(what());
        }
    }
    fn report(&self, id: &str) {
        match &self.first {
            None => println!("NATIVE {} OK cases={} nontrivial={}", id, self.n, self.n),
            Some(f) => println!("NATIVE {} FAIL cases={} nontrivial={} first={}", id, self.n, self.n, f),
        }
    }
}

/// least k >= 0 with m + k*inc == 0 (mod 2^bits), if any
fn least_k(m: u128, inc: u128, bits: u32) -> Option<u128> {
    let md = 1u128 << bits;
    if m == 0 {
        return Some(0);
    }
    // solve k*inc == -m: solvable iff tz(inc) <= tz(m); least solution below 2^(bits - tz(inc))
    if inc == 0 {
        return None;
    }
    let tz = inc.trailing_zeros();
    if m.trailing_zeros() < tz {
        return None;
    }
    let (a, b, w) = (inc >> tz, ((md - m) % md) >> tz, bits - tz);
    let mw = 1u128 << w;
    // inverse of the odd a modulo 2^w by Newton iteration (7 steps suffice for 64 bits)
    // (2^w divides 2^128, so wrapping u128 arithmetic is exact modulo 2^w)
    let mut x: u128 = 1;
    for _ in 0..7 {
        x = x.wrapping_mul(2u128.wrapping_sub(a.wrapping_mul(x))) & (mw - 1);
    }
    Some(b.wrapping_mul(x) & (mw - 1))
}

/// code that adds `v` (mod 2^bits) to the current cell with at most 300 characters for small |v|
fn add_code(v: u128, bits: u32) -> String {
    let md = 1u128 << bits;
    if v <= md / 2 {
        "+".repeat(v as usize)
    } else {
        "-".repeat((md - v) as usize)
    }
}

fn run<C: CellType, E: Executor<'static, C>>(code: &'static str, opt: u32, budget: Option<usize>) -> (Vec<u8>, bool) {
    let mut out = Vec::new();
    let fin;
    {
        let mut cxt = Context::<C>::new(None, Some(Box::new(&mut out)));
        let e = E::create(code, opt).unwrap();
        fin = match budget {
            None => {
                e.execute(&mut cxt).unwrap();
                true
            }
            Some(b) => {
                cxt.budget = b;
                e.execute_limited(&mut cxt).unwrap()
            }
        };
    }
    (out, fin)
}

fn pair<C: CellType>(m: u128, inc: u128, t: &mut [Tally; 2], w: &str) {
    let bits = C::BITS;
    // m [ >+>+++<< inc ] > . > .      cell1 = k, cell2 = 3k
    let code: String = format!("{}[>+>+++<<{}]>.>.", add_code(m, bits), add_code(inc, bits));
    let code: &'static str = Box::leak(code.into_boxed_str());
    match least_k(m, inc, bits) {
        Some(k) => {
            if k > 70_000 {
                return; // too long for the interpreters of the test
            }
            let want = vec![k as u8, (3 * k) as u8];
            // every pair at -O2; the other levels and the bytecode interpreter on every eighth pair
            let all_levels = bits > 8 || (m * 7 + inc) % 8 == 0;
            // (limited runs with a budget no correct program can exhaust: a wrong trip count may
            // well mean a loop that never ends, which must be a failed check, not a hung test)
            let budget = Some(10 * k as usize + 1000);
            for opt in 1..=3 {
                if opt != 2 && !all_levels {
                    continue;
                }
                let (o1, f1) = run::<C, IrInterpreter<C>>(code, opt, budget);
                t[0].check(f1 && o1 == want, || format!("{} start {} increment {} (least k = {}): IR interpreter -O{} finished={} prints {:?}, expected {:?}", w, m, inc, k, opt, f1, o1, want));
                if opt == 2 && all_levels {
                    let (o2, f2) = run::<C, BcInterpreter<C>>(code, opt, budget);
                    t[0].check(f2 && o2 == want, || format!("{} start {} increment {} (least k = {}): bytecode interpreter -O{} finished={} prints {:?}, expected {:?}", w, m, inc, k, opt, f2, o2, want));
                }
            }
        }
        None => {
            for opt in 1..=3 {
                if opt != 2 && bits == 8 && (m * 7 + inc) % 8 != 0 {
                    continue;
                }
                let (o1, fin) = run::<C, IrInterpreter<C>>(code, opt, Some(3000));
                t[1].check(!fin && o1.is_empty(), || format!("{} start {} increment {} (no k exists): IR interpreter -O{} limited run finished={} output {:?}", w, m, inc, opt, fin, o1));
            }
        }
    }
}

fn quarter(q: u128) {
    let mut t = [Tally { n: 0, first: None }, Tally { n: 0, first: None }];
    for m in (q * 64)..(q * 64 + 64) {
        for inc in 1..256u128 {
            pair::<u8>(m, inc, &mut t, "u8");
        }
    }
    t[0].report("finite");
    t[1].report("infinite");
}

#[test]
fn verif_n8_u8_q0() {
    quarter(0);
}
#[test]
fn verif_n8_u8_q1() {
    quarter(1);
}
#[test]
fn verif_n8_u8_q2() {
    quarter(2);
}
#[test]
fn verif_n8_u8_q3() {
    quarter(3);
}

#[test]
fn verif_n8_wide() {
    let mut t = [Tally { n: 0, first: None }, Tally { n: 0, first: None }];
    for (m, inc) in [(1u128, 0xffffu128), (2, 0xfffe), (300, 0xffff), (255, 0xfffd), (256, 0xff00), (0x8000, 0x8000), (3, 2), (6, 0xfffa), (1000, 0xfff8), (5, 0xfffb), (40, 0xfff0)] {
        pair::<u16>(m, inc, &mut t, "u16");
    }
    for (m, inc) in [(1u128, 0xffff_ffffu128), (300, 0xffff_ffff), (255, 0xffff_fffd), (6, 0xffff_fffa), (3, 2), (1 << 16, 0xffff_0000)] {
        pair::<u32>(m, inc, &mut t, "u32");
    }
    for (m, inc) in [(1u128, u64::MAX as u128), (300, u64::MAX as u128), (255, (u64::MAX - 2) as u128), (6, (u64::MAX - 5) as u128), (3, 2)] {
        pair::<u64>(m, inc, &mut t, "u64");
    }
    t[0].report("finite");
    t[1].report("infinite");
}
