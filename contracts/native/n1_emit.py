"""N1 `emit` — BOUNDED STAND-IN (native enumeration) for `bcint::ops::emit` and
`BcInterpreter::build_threaded_code`, the two functions between the bytecode and the verified
threaded ops that Kani cannot process (goto-instrument needs > 65 GB for the op_match! expansion).

Contract of `emit(insts, instr, safe)`: it appends exactly [op, operand words...] where the op is the
instantiation selected by the operand KINDS (Tmp(0) -> Reg0, Tmp(1) -> Reg1, Tmp(k>=2) -> Tmp, Mem, MemZero,
Imm(0) -> Zero, Imm(1) -> One, Imm(-1) -> NegOne, other Imm -> Imm; the two-operand form when dst == src0) and
the words follow in the order the op contracts of unit u5 assume: src0 word?, src1 word?, dst word?.
Enumerated: every instruction over a 13-value operand alphabet (all 1116 kind combinations) x safe in
{true,false}; additionally each emitted op is EXECUTED on two concrete machine states through
`enter_ops` and compared with the bytecode step semantics.
Contract of `build_threaded_code`: limit ops exactly before every branch (cost 1) and before every
stationary scan (cost usize::MAX) when limited, branch words patched to the start of the target
instruction (including its limit prefix), `ret` at the end; enumerated over all programs of <= 3
instructions from a 9-instruction alphabet."""
import os

UNIT = "n1_emit"
TEST_FILTER = "verif_n1_"
TIMEOUT = 2400
HERE = os.path.dirname(os.path.abspath(__file__))
TRUSTED = ["bytecode step semantics and kind-selection table written in the test module (the specification)",
           "BOUNDED: operand alphabet of 13 values, 2 machine states per executed instruction, programs of <= 3 instructions"]

DK = ["Reg0", "Reg1", "Tmp", "Mem"]
SK = ["Reg0", "Reg1", "Tmp", "Mem", "MemZero", "Zero", "One", "NegOne", "Imm"]


def _table():
    arms = []
    for op, oi in (("copy", 0), ("add", 1), ("sub", 2), ("mul", 3)):
        for di, d in enumerate(DK):
            for si, s in enumerate(SK):
                arms.append("        (%d, %d, %d, _) => %s::<C, %s, %s>," % (oi, di, si, op, d, s))
    for op, oi in (("add2", 4), ("sub2", 5), ("mul2", 6)):
        for di, d in enumerate(DK):
            for ai, a in enumerate(SK):
                for bi, b in enumerate(SK):
                    arms.append("        (%d, %d, %d, %d) => %s::<C, %s, %s, %s>," % (oi, di, ai, bi, op, d, a, b))
    return "\n".join(arms)


def overlay(tier, seed=0):
    src = open(os.path.join(HERE, "n1_emit.rs.in")).read().replace("VERIF_N1_TABLE", _table())
    return [{"src": src, "dest": "src/exec/bcint/verif_n1_emit.rs", "mod_in": "src/exec/bcint/ops.rs", "mod_name": "verif_n1", "params": {}}]


def obligations(tier, seed):
    b = "BOUNDED (native enumeration): 13-value operand alphabet covering all 1116 operand-kind combinations, safe in {true,false}"
    return [
        {"id": "emit_layout", "function": "bcint::ops::emit (arithmetic / copy instructions)",
         "clause": "appends [selected op instantiation, src0 word?, src1 word?, dst word?] -- selection by operand kind, two-operand form iff dst == src0",
         "properties": ["C02"], "bounded_by": b, "complete_over": "every operand-kind combination; values from the alphabet"},
        {"id": "emit_layout_other", "function": "bcint::ops::emit (Noop, Scan, Mov, Inp, Out, BrZ, BrNZ)",
         "clause": "appends the op for the instruction (l/r by the sign of the shift, checked/unchecked by `safe`) followed by its words",
         "properties": ["C02", "C06", "C10"], "bounded_by": b, "complete_over": "offsets / shifts from a boundary set"},
        {"id": "emit_exec", "function": "bcint::ops::{emit, enter_ops} + the selected op",
         "clause": "executing the emitted stream on a concrete machine state yields bc_step(instr, state) (two states per instruction)",
         "properties": ["C02"], "bounded_by": b + "; 2 concrete states each", "complete_over": "-"},
        {"id": "threaded_code_layout", "function": "BcInterpreter::build_threaded_code + ops::{emit_limit, emit_return, adjust_branch}",
         "clause": "limited: [limit, 1] exactly before every branch and [limit, usize::MAX] before every stationary scan; branch words = start(target) - position(branch op); stream ends with ret; nothing else inserted",
         "properties": ["C02", "C07"], "bounded_by": "BOUNDED (native enumeration): all programs of <= 3 instructions over a 9-instruction alphabet, limited x safe",
         "complete_over": "-"},
    ]
