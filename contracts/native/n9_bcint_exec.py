"""N9 `bcint_exec` — BOUNDED STAND-IN: the bytecode interpreter as a whole (`BcInterpreter::
{execute, execute_unsafe, execute_limited}` = build_context + build_threaded_code + enter_ops +
every op the program needs + free_context) run on enumerated small BYTECODE programs and compared
with bc_step, the per-instruction semantics units u5/u6 prove the ops against.  What the per-op
proofs cannot see is how the ops are strung together: which handler `emit` selects, where limit
ops go, how branches are patched, what an added fused op does when it is also a branch target.
Checked mode, unchecked mode (tape pre-grown with a margin) and limited mode."""
import os

UNIT = "n9_bcint_exec"
TEST_FILTER = "verif_n9_"
TIMEOUT = 420   # a normal run takes 30 s; a hang of the real code on a halting case is reported as a failure
RELEASE = True
TRUSTED = ["oracle: bc_step as stated in units u5/u6 (re-stated in the native module)",
           "BOUNDED: all bytecode programs of <= 3 instructions over a 30-instruction alphabet (valid branch targets) + loop / if / move skeletons with bodies from the alphabet; 4 start tapes; input stream of 5 bytes; u8 and u32; debug-assertions build"]
HERE = os.path.dirname(os.path.abspath(__file__))


def overlay(tier, seed=0):
    return [{"src": "n9_bcint_exec.rs", "dest": "src/exec/bcint/verif_n9_bcint_exec.rs", "mod_in": "src/exec/bcint/mod.rs", "mod_name": "verif_n9", "params": {}}]


def obligations(tier, seed):
    b = "BOUNDED (native enumeration): bytecode programs of <= 3 instructions + loop/if/move skeletons, 4 start tapes, u8 and u32"
    def o(i, clause, props):
        return {"id": i, "function": "bcint::BcInterpreter::{execute_in, build_threaded_code, build_context, free_context} + ops::{enter_ops, emit, every handler reached}",
                "clause": clause, "properties": props, "bounded_by": b, "complete_over": "the enumerated programs x start tapes"}
    return [
        o("checked", "execute: output bytes, input requests, final tape and pointer equal bc_step iterated (whenever that halts)", ["C02", "C06"]),
        o("unchecked", "execute_unsafe on a tape pre-grown with a margin: the same events, tape and pointer as bc_step; nothing outside the pre-grown region is touched (the region's far cells stay zero)", ["C10", "C02"]),
        o("limited", "execute_limited: events are a prefix of the bc_step run; `finished` only when the bc_step run halted with the same events; returns for every budget", ["C07", "C02"]),
    ]
