"""N5 `checked_moves` — BOUNDED STAND-IN, run under MIRI (cargo +nightly miri test): the bounds-checked
tape moves and scans of the bytecode interpreter, `ops::{movl, movr, scanl, scanr}::<_, true>` with
`checkl` / `checkr`, including the cases unit u5 cannot decide with Kani: a left move / left scan
that grows the tape BELOW (the probe pointer lies before the allocation, which CBMC's pointer
encoding cannot represent) and the checked scan LOOP (timeout).

Miri executes the real ops and reports every access outside a live allocation (and every other
undefined behaviour) -- that is the out-of-bounds half of C06.  The test adds the functional half:
after the op the tape pointer has moved by shift (resp. to the first zero condition cell), every
cell keeps its value across the reallocation (view preserved), the whole window [min_accessed,
max_accessed] around the new pointer is dereferenceable, the instruction pointer advanced past the
operands."""
import os

UNIT = "n5_checked_moves"
TEST_FILTER = "verif_n5_"
TIMEOUT = 2400
RELEASE = False
MIRI = True
# which part of the enumeration a Miri report belongs to (by the text of the case that was running)
UB_KEYWORDS = {"mov_checked": " mov ", "scan_checked": " scan stride "}
TRUSTED = ["Miri (nightly) as the detector of out-of-bounds accesses and other undefined behaviour",
           "BOUNDED: enumerated tape geometries (5), access windows (<= 5), shifts (+-1, 2, 3, 7, 40), scan strides (+-1, 2, 3), non-zero run lengths 0..4, cell types u8 and u32; debug-assertions (trampolined) noop"]
HERE = os.path.dirname(os.path.abspath(__file__))


def overlay(tier, seed=0):
    return [{"src": "n5_checked_moves.rs", "dest": "src/exec/bcint/verif_n5_checked_moves.rs", "mod_in": "src/exec/bcint/ops.rs", "mod_name": "verif_n5", "params": {}}]


def obligations(tier, seed):
    b = "BOUNDED (native enumeration under Miri): 5 tape geometries x access windows x shifts / strides x run lengths, u8 and u32"
    def o(i, fn, clause, props):
        return {"id": i, "function": fn, "clause": clause, "properties": props, "bounded_by": b, "complete_over": "the enumerated configurations"}
    return [
        o("mov_checked", "bcint::ops::{movl::<_, true>, movr::<_, true>, checkl, checkr}",
          "no access outside a live allocation (Miri); pointer moved by the shift word; view preserved across growth below / above; window [min_accessed, max_accessed] dereferenceable afterwards; ip advanced by 2", ["C06", "C02"]),
        o("scan_checked", "bcint::ops::{scanl::<_, true>, scanr::<_, true>, checkl, checkr}",
          "no access outside a live allocation (Miri); pointer stops at the first position p + k*stride whose condition cell is zero; view preserved across every growth on the way; window dereferenceable afterwards; ip advanced by 3", ["C06", "C02"]),
    ]
