// N9 — the bytecode interpreter as a whole on enumerated bytecode programs (see n9_bcint_exec.py).
#![allow(dead_code)]
use super::*;
use crate::bc::{Instr, Loc, Program};
use crate::exec::Executable;
use crate::runtime::Context;
use std::cell::RefCell;
use std::io::{self, Read, Write};
use std::rc::Rc;

const W: isize = 300;

#[derive(Clone, PartialEq, Debug)]
struct St<C: CellType> {
    cells: Vec<C>,
    ptr: isize,
    temps: Vec<C>,
    ev: Vec<Ev>,
    inputs: usize,
    oob: bool,
}
#[derive(Clone, Copy, PartialEq, Debug)]
enum Ev {
    In,
    Out(u8),
}
const INPUT: [u8; 5] = [3, 0, 255, 2, 7];

impl<C: CellType> St<C> {
    fn get(&mut self, off: isize) -> C {
        let i = self.ptr + off + W;
        if i < 0 || i >= self.cells.len() as isize {
            self.oob = true;
            return C::ZERO;
        }
        self.cells[i as usize]
    }
    fn set(&mut self, off: isize, v: C) {
        let i = self.ptr + off + W;
        if i < 0 || i >= self.cells.len() as isize {
            self.oob = true;
            return;
        }
        self.cells[i as usize] = v;
    }
    fn read(&mut self, l: Loc<C>) -> C {
        match l {
            Loc::Mem(m) => self.get(m),
            Loc::MemZero(m) => {
                let v = self.get(m);
                self.set(m, C::ZERO);
                v
            }
            Loc::Tmp(t) => self.temps[t],
            Loc::Imm(v) => v,
        }
    }
    fn write(&mut self, l: Loc<C>, v: C) {
        match l {
            Loc::Mem(m) => self.set(m, v),
            Loc::Tmp(t) => self.temps[t] = v,
            _ => self.oob = true,
        }
    }
}

/// bc_step iterated; returns whether the program halted within the step bound / on the modelled tape
fn run_bc<C: CellType>(insts: &[Instr<C>], st: &mut St<C>, mut budget: usize) -> bool {
    let mut pc: usize = 0;
    while pc < insts.len() {
        if budget == 0 || st.oob {
            return false;
        }
        budget -= 1;
        match insts[pc] {
            Instr::Noop => {}
            Instr::Scan(c, s) => {
                let mut n = 0;
                while st.get(c) != C::ZERO {
                    st.ptr += s;
                    n += 1;
                    if n > 200 || st.oob {
                        return false;
                    }
                }
            }
            Instr::Mov(s) => st.ptr += s,
            Instr::Inp(d) => {
                st.ev.push(Ev::In);
                let v = if st.inputs < INPUT.len() { C::from_u8(INPUT[st.inputs]) } else { C::ZERO };
                st.inputs += 1;
                st.set(d, v);
            }
            Instr::Out(s) => {
                let v = st.get(s);
                st.ev.push(Ev::Out(v.into_u8()));
            }
            Instr::BrZ(c, off) => {
                if st.get(c) == C::ZERO {
                    pc = pc.wrapping_add_signed(off);
                    continue;
                }
            }
            Instr::BrNZ(c, off) => {
                if st.get(c) != C::ZERO {
                    pc = pc.wrapping_add_signed(off);
                    continue;
                }
            }
            Instr::Add(d, a, b) => {
                let x = st.read(a);
                let y = st.read(b);
                st.write(d, x.wrapping_add(y));
            }
            Instr::Sub(d, a, b) => {
                let x = st.read(a);
                let y = st.read(b);
                st.write(d, x.wrapping_add(y.wrapping_neg()));
            }
            Instr::Mul(d, a, b) => {
                let x = st.read(a);
                let y = st.read(b);
                st.write(d, x.wrapping_mul(y));
            }
            Instr::Copy(d, a) => {
                let x = st.read(a);
                st.write(d, x);
            }
        }
        pc += 1;
    }
    !st.oob && st.ptr.abs() < W - 8
}

struct LogRead {
    pos: usize,
    log: Rc<RefCell<Vec<Ev>>>,
}
impl Read for LogRead {
    fn read(&mut self, buf: &mut [u8]) -> io::Result<usize> {
        self.log.borrow_mut().push(Ev::In);
        if self.pos < INPUT.len() {
            buf[0] = INPUT[self.pos];
            self.pos += 1;
            Ok(1)
        } else {
            Ok(0)
        }
    }
}
struct LogWrite {
    log: Rc<RefCell<Vec<Ev>>>,
}
impl Write for LogWrite {
    fn write(&mut self, buf: &[u8]) -> io::Result<usize> {
        self.log.borrow_mut().push(Ev::Out(buf[0]));
        Ok(1)
    }
    fn flush(&mut self) -> io::Result<()> {
        Ok(())
    }
}

struct Tally {
    n: usize,
    nontrivial: usize,
    first: Option<String>,
}
impl Tally {
    fn check(&mut self, ok: bool, what: impl FnOnce() -> String) {
        self.n += 1;
        if !ok && self.first.is_none() {
            self.first = Some(what());
        }
    }
    fn report(&self, id: &str) {
        match &self.first {
            None => println!("NATIVE {} OK cases={} nontrivial={}", id, self.n, self.nontrivial),
            Some(f) => println!("NATIVE {} FAIL cases={} nontrivial={} first={}", id, self.n, self.nontrivial, f.replace('\n', " ")),
        }
    }
}

/// window and temporaries count of a program (the generator-side contract, C11)
fn window<C: CellType>(p: &[Instr<C>]) -> (isize, isize, usize) {
    let (mut lo, mut hi, mut t) = (0isize, 0isize, 2usize);
    let mut loc = |l: Loc<C>| match l {
        Loc::Mem(m) | Loc::MemZero(m) => {
            lo = lo.min(m);
            hi = hi.max(m);
        }
        Loc::Tmp(k) => t = t.max(k + 1),
        _ => {}
    };
    for i in p {
        match *i {
            Instr::Scan(c, _) | Instr::Inp(c) | Instr::Out(c) | Instr::BrZ(c, _) | Instr::BrNZ(c, _) => loc(Loc::Mem(c)),
            Instr::Add(d, a, b) | Instr::Sub(d, a, b) | Instr::Mul(d, a, b) => {
                loc(d);
                loc(a);
                loc(b);
            }
            Instr::Copy(d, a) => {
                loc(d);
                loc(a);
            }
            _ => {}
        }
    }
    (lo, hi, t)
}

/// mode: 0 checked, 1 unchecked (pre-grown), 2 limited
fn real<C: CellType>(p: &[Instr<C>], init: &[u8; 4], mode: u8, budget: usize) -> (Vec<Ev>, bool, Vec<C>) {
    let (lo, hi, temps) = window(p);
    let log = Rc::new(RefCell::new(Vec::new()));
    let view;
    let fin;
    {
        let mut cxt = Context::<C>::new(Some(Box::new(LogRead { pos: 0, log: log.clone() })), Some(Box::new(LogWrite { log: log.clone() })));
        if mode == 1 {
            cxt.memory.make_accessible(-W, W + 1); // the margin of the property: far more than the program's length
        }
        for (k, &b) in init.iter().enumerate() {
            cxt.memory.write(k as isize - 1, C::from_u8(b));
        }
        let interp = BcInterpreter { bytecode: Program::<C> { temps, min_accessed: lo, max_accessed: hi, live: vec![0; p.len()], insts: p.to_vec() } };
        fin = match mode {
            0 => {
                interp.execute(&mut cxt).unwrap();
                true
            }
            1 => {
                unsafe { interp.execute_unsafe(&mut cxt).unwrap() };
                true
            }
            _ => {
                cxt.budget = budget;
                interp.execute_limited(&mut cxt).unwrap()
            }
        };
        // the tape relative to the START position cannot be observed; relative to the final pointer it can
        view = (-12..=12).map(|i| cxt.memory.read(i)).collect::<Vec<C>>();
    }
    let ev = log.borrow().clone();
    (ev, fin, view)
}

fn one<C: CellType>(prog: &[Instr<C>], t: &mut [Tally; 3], w: &str) {
    // every program ends by printing the four cells around the final pointer
    let mut full: Vec<Instr<C>> = prog.to_vec();
    full.extend([Instr::Out(-1), Instr::Out(0), Instr::Out(1), Instr::Out(2)]);
    let p = &full[..];
    for init in [[0u8, 0, 0, 0], [0, 1, 0, 0], [2, 3, 1, 0], [255, 2, 2, 1]] {
        let mut st = St::<C> { cells: vec![C::ZERO; 2 * W as usize + 1], ptr: 0, temps: vec![C::ZERO; 16], ev: Vec::new(), inputs: 0, oob: false };
        for (k, &b) in init.iter().enumerate() {
            st.set(k as isize - 1, C::from_u8(b));
        }
        let halted = run_bc(p, &mut st, 30_000);
        if halted {
            for mode in [0u8, 1] {
                // (the tape is observed through the four trailing `out`s every program ends with: where
                // the Context's pointer is left after a run is not part of any property -- the
                // release-build `ret` does not save it)
                println!("N9CASE {} {} run of {:?} from cells[-1..=2]={:?}", w, if mode == 0 { "checked" } else { "unchecked" }, p, init);
                let (ev, _, _) = real::<C>(p, &init, mode, 0);
                let ok = ev == st.ev;
                if !st.ev.is_empty() || st.ptr != 0 {
                    t[mode as usize].nontrivial += 1;
                }
                t[mode as usize].check(ok, || format!("{} {} run of {:?} from cells[-1..=2]={:?}: events {:?}; bc_step gives events {:?} (pointer moved by {})",
                    w, if mode == 0 { "checked" } else { "unchecked" }, p, init, ev, st.ev, st.ptr));
            }
        }
        for b in [0usize, 1, 2, 5, 60] {
            if st.oob {
                continue; // the reference run left the modelled tape: nothing to compare with
            }
            let (ev, fin, _) = real::<C>(p, &init, 2, b);
            let prefix = ev.len() <= st.ev.len() && ev[..] == st.ev[..ev.len()];
            if !fin {
                t[2].nontrivial += 1;
            }
            t[2].check(prefix && (!fin || (halted && ev == st.ev)), || format!("{} limited run (budget {}) of {:?} from {:?}: finished={} events {:?}; bc_step (halted={}) gives {:?}", w, b, p, init, fin, ev, halted, st.ev));
        }
    }
}

fn alphabet<C: CellType>() -> Vec<Instr<C>> {
    let m = |i| Loc::<C>::Mem(i);
    vec![
        Instr::Out(0), Instr::Out(1), Instr::Inp(0), Instr::Inp(1), Instr::Mov(1), Instr::Mov(-1), Instr::Mov(2),
        Instr::Scan(0, 1), Instr::Scan(0, -1), Instr::Scan(1, 2),
        Instr::Copy(m(0), Loc::Imm(C::ZERO)), Instr::Copy(m(1), Loc::Imm(C::from_u8(2))), Instr::Copy(m(0), m(1)), Instr::Copy(Loc::Tmp(2), m(0)), Instr::Copy(m(1), Loc::Tmp(2)),
        Instr::Add(m(0), m(0), Loc::Imm(C::NEG_ONE)), Instr::Add(m(1), m(1), Loc::Imm(C::ONE)), Instr::Add(m(0), m(0), m(1)), Instr::Add(m(-1), m(0), Loc::MemZero(1)),
        Instr::Sub(m(0), m(0), m(1)), Instr::Sub(Loc::Tmp(3), Loc::Imm(C::from_u8(5)), m(1)), Instr::Mul(m(1), m(1), m(0)), Instr::Mul(Loc::Tmp(2), Loc::Tmp(2), Loc::Imm(C::from_u8(3))),
        Instr::Add(m(2), Loc::Tmp(2), Loc::Tmp(3)),
    ]
}

fn programs<C: CellType>() -> Vec<Vec<Instr<C>>> {
    let al = alphabet::<C>();
    let mut out: Vec<Vec<Instr<C>>> = Vec::new();
    for a in &al {
        out.push(vec![*a]);
        for b in &al {
            out.push(vec![*a, *b]);
            // while [0] { a; b }            and with a pointer move in front of the back edge
            out.push(vec![Instr::BrZ(0, 4), *a, *b, Instr::BrNZ(0, -2), Instr::Out(0)]);
            out.push(vec![Instr::BrZ(0, 5), *a, *b, Instr::Mov(1), Instr::BrNZ(0, -3), Instr::Out(0)]);
            // if [1] { a } ; b
            out.push(vec![Instr::BrZ(1, 2), *a, *b, Instr::Out(1)]);
            // while [0] { a; if [1] { b; move } }   -- the `if` skips to the loop's back edge
            for s in [1isize, -1] {
                out.push(vec![Instr::BrZ(0, 6), *a, Instr::BrZ(1, 3), *b, Instr::Mov(s), Instr::BrNZ(0, -4), Instr::Out(0), Instr::Out(1)]);
            }
        }
    }
    // every move distance the generator can produce for small programs, alone, after a store, and
    // as the stride of a loop (a special-cased distance must still move by exactly that distance)
    for sh in -18isize..=18 {
        if sh == 0 {
            continue;
        }
        out.push(vec![Instr::Mov(sh)]);
        out.push(vec![Instr::Copy(Loc::Mem(0), Loc::Imm(C::from_u8(9))), Instr::Mov(sh), Instr::Copy(Loc::Mem(0), Loc::Imm(C::from_u8(7))), Instr::Mov(-sh)]);
        out.push(vec![Instr::BrZ(0, 4), Instr::Out(0), Instr::Mov(sh), Instr::BrNZ(0, -2)]);
        out.push(vec![Instr::Scan(0, sh)]);
    }
    for a in &al[..12] {
        for b in &al {
            for c in &al[..12] {
                out.push(vec![*a, *b, *c]);
            }
        }
    }
    out
}

#[test]
fn verif_n9_u8() {
    let mut t = [Tally { n: 0, nontrivial: 0, first: None }, Tally { n: 0, nontrivial: 0, first: None }, Tally { n: 0, nontrivial: 0, first: None }];
    for p in programs::<u8>() {
        one::<u8>(&p, &mut t, "u8");
    }
    t[0].report("checked");
    t[1].report("unchecked");
    t[2].report("limited");
}

#[test]
fn verif_n9_u32() {
    let mut t = [Tally { n: 0, nontrivial: 0, first: None }, Tally { n: 0, nontrivial: 0, first: None }, Tally { n: 0, nontrivial: 0, first: None }];
    for (k, p) in programs::<u32>().into_iter().enumerate() {
        if k % 3 == 0 {
            one::<u32>(&p, &mut t, "u32");
        }
    }
    t[0].report("checked");
    t[1].report("unchecked");
    t[2].report("limited");
}
