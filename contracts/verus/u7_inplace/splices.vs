#@ Contract clauses for U7 `inplace` (C04; in-place parts of C07 and C08).

#@ ---------------------------------------------------------------- boundary: CellType
#@ The spec members and the three method contracts are copied verbatim from unit u1_cell, where
#@ they are PROVED for the trait's default methods and for all four implementations.
#@include ../u1_cell/splices.vs :: trait CellType @ open
#@include ../u1_cell/splices.vs :: trait CellType > fn wrapping_add @ d3 r
#@include ../u1_cell/splices.vs :: trait CellType > fn wrapping_add @ sig
#@include ../u1_cell/splices.vs :: trait CellType > fn from_u8 @ d3 r
#@include ../u1_cell/splices.vs :: trait CellType > fn from_u8 @ sig
#@include ../u1_cell/splices.vs :: trait CellType > fn into_u8 @ d3 r
#@include ../u1_cell/splices.vs :: trait CellType > fn into_u8 @ sig

@@ struct Error @ pub

#@ ---------------------------------------------------------------- boundary: runtime
@@ struct Memory @ before
#[verifier::external_body]
#[verifier::reject_recursive_types(C)]
@@ struct Memory @ pub
@@ struct Context @ before
#[verifier::reject_recursive_types(C)]
@@ struct Context @ pub

@@ impl<C: CellType> Memory<C> @ open
    /// Abstract view: the cell at signed distance `i` from the logical pointer (total; unit
    /// u2_tape checks the real operations against exactly this view).
    pub open spec fn view(&self, i: int) -> C { mem_view(*self, i) }
@@ impl<C: CellType> Memory<C> > fn mov @ sig
        ensures forall|i: int| #[trigger] final(self).view(i) == old(self).view(i + offset),
@@ impl<C: CellType> Memory<C> > fn read @ d3 r
@@ impl<C: CellType> Memory<C> > fn read @ sig
        ensures r == self.view(offset as int)
@@ impl<C: CellType> Memory<C> > fn write @ sig
        ensures forall|i: int| #[trigger] final(self).view(i) == (if i == offset as int { value } else { old(self).view(i) }),

@@ impl<'a, C: CellType> Context<'a, C> @ open
    /// Event log and environment: functions of the I/O objects only (so tape and budget updates
    /// provably leave them alone).
    pub open spec fn calls(&self) -> Seq<Call> { io_calls(self.input, self.output) }
    pub open spec fn n_in(&self) -> nat { io_n_in(self.input, self.output) }
    pub open spec fn n_out(&self) -> nat { io_n_out(self.input, self.output) }
    pub open spec fn oracle(&self) -> Oracle { io_oracle(self.input, self.output) }
@@ impl<'a, C: CellType> Context<'a, C> > fn input @ d3 r
@@ impl<'a, C: CellType> Context<'a, C> > fn input @ sig
        ensures r == (old(self).oracle().inp)(old(self).n_in()),
                final(self).calls() == old(self).calls().push(Call::In),
                final(self).n_in() == old(self).n_in() + 1, final(self).n_out() == old(self).n_out(),
                final(self).oracle() == old(self).oracle(),
                final(self).memory == old(self).memory, final(self).budget == old(self).budget,
@@ impl<'a, C: CellType> Context<'a, C> > fn output @ d3 r
@@ impl<'a, C: CellType> Context<'a, C> > fn output @ sig
        ensures r.is_some() == (old(self).oracle().out)(old(self).n_out()),
                final(self).calls() == old(self).calls().push(Call::Out(value)),
                final(self).n_out() == old(self).n_out() + 1, final(self).n_in() == old(self).n_in(),
                final(self).oracle() == old(self).oracle(),
                final(self).memory == old(self).memory, final(self).budget == old(self).budget,

@@ struct InplaceInterpreter @ before
#[verifier::reject_recursive_types(C)]
@@ struct InplaceInterpreter @ pub

#@ ---------------------------------------------------------------- the interpreter (verbatim body)
#@ Generic instance: partial correctness for both values of LIMITED (the unlimited instance may
#@ diverge -- exactly when the canonical run does, since every outer iteration is one canonical step).
#@repeat
#@case
#@with V := 
#@with D5 := 
#@with EXTRA_ENS := 
#@with ATTR := #[verifier::exec_allows_no_decreases_clause]
#@with DEC1 := 
#@with DEC2 := 
#@with LIM := LIMITED
#@with EXTRA_REQ := 
#@with GHOSTN := 
#@with INV_N := 
#@with STEP_N := 
#@case
#@ LIMITED = true (C07): same simulation, plus TERMINATION with the measure (budget, |code|+1-pc)
#@with V := #limited
#@with D5 := @@ impl<C: CellType> InplaceInterpreter<'_, C>#limited > fn execute_in @ d5 LIMITED=true name=execute_in_limited
#@with EXTRA_ENS := res == Ok::<bool, Error>(false) ==> final(cxt).budget == 0,
#@with ATTR := 
#@with DEC1 := decreases cxt.budget, code_s.len() + 1 - pc
#@with DEC2 := decreases code_s.len() - pc
#@with LIM := true
#@with EXTRA_REQ := 
#@with GHOSTN := 
#@with INV_N := 
#@with STEP_N := 
#@case
#@ LIMITED = false, TOTAL correctness (C04: "whenever the canonical run terminates"): for a balanced program
#@ whose canonical run halts, the interpreter terminates -- measure N - n with N a halting step count
#@with V := #total
#@with D5 := @@ impl<C: CellType> InplaceInterpreter<'_, C>#total > fn execute_in @ d5 LIMITED=false name=execute_in_total
#@with EXTRA_ENS := 
#@with ATTR := 
#@with DEC1 := decreases big_n - n
#@with DEC2 := decreases code_s.len() - pc
#@with LIM := false
#@with EXTRA_REQ := balanced(str_bytes(self.code)), canon_halts(str_bytes(self.code), C::bits(), old(cxt).oracle(), init_cfg(old(cxt))),
#@with GHOSTN := let ghost big_n: nat = choose|k: nat| halted(code_s, #[trigger] canon_run(code_s, w, orc, c0, k));
#@with INV_N := balanced(code_s), halted(code_s, canon_run(code_s, w, orc, c0, big_n)),
#@with STEP_N := lemma_not_halted_before(code_s, w, orc, c0, (n - 1) as nat, big_n);
#@body
@@ impl<C: CellType> InplaceInterpreter<'_, C>${V} > fn execute_in @ shape
while match if return if else return if while if if break else if else if if return ? if
${D5}
@@ impl<C: CellType> InplaceInterpreter<'_, C>${V} > fn execute_in @ before
${ATTR}
@@ impl<C: CellType> InplaceInterpreter<'_, C>${V} > fn execute_in @ d3 res
@@ impl<C: CellType> InplaceInterpreter<'_, C>${V} > fn execute_in @ sig
        requires
            // `cnt` is an i32: the skip scan would overflow it on 2^31 nested brackets
            str_bytes(self.code).len() < 0x7fff_ffff,
            ${EXTRA_REQ}
        ensures
            final(cxt).oracle() == old(cxt).oracle(),
            // C04 / C07 / C08: for every balanced program the call returns Ok, the event log is
            // the log of a canonical run prefix, and `finished` is reported only when that run
            // has halted (end of program, or stopped at a failed I/O operation -- no later event)
            balanced(str_bytes(self.code)) ==> res.is_ok() && exists|n: nat| {
                let c = #[trigger] canon_run(str_bytes(self.code), C::bits(), old(cxt).oracle(), init_cfg(old(cxt)), n);
                &&& c.calls == final(cxt).calls()
                &&& (res == Ok::<bool, Error>(true) ==> halted(str_bytes(self.code), c))
                &&& (!${LIM} ==> res == Ok::<bool, Error>(true))
            },
            // (the content of the Err value is built inside a closure passed to ok_or_else; Verus
            // has no view of un-annotated closure results, so kind/position are not decided here)
            #@canary res.is_err() && res.is_ok(),
            ${EXTRA_ENS}
@@ impl<C: CellType> InplaceInterpreter<'_, C>${V} > fn execute_in @ body_start
        let ghost code_s = str_bytes(self.code);
        let ghost w = C::bits();
        let ghost orc = cxt.oracle();
        let ghost c0 = init_cfg(cxt);
        let ghost mut cfg = c0;
        let ghost mut n: nat = 0;
        ${GHOSTN}
        proof { C::facts(); C::eq_all(); }
@@ impl<C: CellType> InplaceInterpreter<'_, C>${V} > fn execute_in @ loop 1
            invariant
                code_bytes@ == code_s, code_s.len() < 0x7fff_ffff, code_s == str_bytes(self.code),
                cxt.oracle() == orc, orc == old(cxt).oracle(), c0 == init_cfg(old(cxt)),
                0 <= pc <= code_s.len() + 1,
                stack_le(loop_stack@, code_s.len()),
                balanced(code_s) ==> pc <= code_s.len(),
                balanced(code_s) ==> cfg == canon_run(code_s, w, orc, c0, n),
                balanced(code_s) ==> rel(cfg, cxt, pc as int),
                balanced(code_s) ==> stack_ok(code_s, pc as int, loop_stack@),
                w == C::bits(),
                cxt.budget <= old(cxt).budget,
                ${INV_N}
            ${DEC1}
@@ impl<C: CellType> InplaceInterpreter<'_, C>${V} > fn execute_in @ loop 1 body_start
            let ghost pc0 = pc as int;
            let ghost cfg0 = cfg;
            proof {
                C::facts(); C::eq_all();
                if balanced(code_s) {
                    cfg = canon_step(code_s, w, orc, cfg0);
                    n = n + 1;
                    assert(!halted(code_s, cfg0));
                    assert(cfg == canon_run(code_s, w, orc, c0, n));
                    ${STEP_N}
                    lemma_depth_step(code_s, pc0);
                    if code_s[pc0] != 0x5Bu8 && code_s[pc0] != 0x5Du8 {
                        lemma_stack_plain(code_s, pc0, loop_stack@);
                    }
                    if code_s[pc0] == 0x5Du8 {
                        lemma_stack_close(code_s, pc0, loop_stack@);
                    }
                }
            }
@@ impl<C: CellType> InplaceInterpreter<'_, C>${V} > fn execute_in @ ret 1
                        proof {
                            if balanced(code_s) {
                                assert(cfg.stopped);
                                assert(cfg.calls == cxt.calls());
                                let cc = canon_run(str_bytes(self.code), C::bits(), old(cxt).oracle(), init_cfg(old(cxt)), n);
                                assert(cc == cfg);
                                assert(halted(str_bytes(self.code), cc));
                            }
                        }
@@ impl<C: CellType> InplaceInterpreter<'_, C>${V} > fn execute_in @ ret 2
                        proof {
                            if balanced(code_s) {
                                assert(cfg.stopped);
                                assert(cfg.calls == cxt.calls());
                                let cc = canon_run(str_bytes(self.code), C::bits(), old(cxt).oracle(), init_cfg(old(cxt)), n);
                                assert(cc == cfg);
                                assert(halted(str_bytes(self.code), cc));
                            }
                        }
@@ impl<C: CellType> InplaceInterpreter<'_, C>${V} > fn execute_in @ ret 3
                            proof {
                                if balanced(code_s) {
                                    let cc = canon_run(str_bytes(self.code), C::bits(), old(cxt).oracle(), init_cfg(old(cxt)), n);
                                    assert(cc == cfg);
                                    assert(cc.calls == cxt.calls());
                                }
                            }
@@ impl<C: CellType> InplaceInterpreter<'_, C>${V} > fn execute_in @ loop 2
                            invariant
                                code_bytes@ == code_s, code_s.len() < 0x7fff_ffff,
                                pc0 + 1 <= pc <= code_s.len(),
                                0 <= cnt <= pc - (pc0 + 1),
                                0 <= pc0 < code_s.len(), code_s[pc0] == 0x5Bu8,
                                depth(code_s, pc0 + 1) == depth(code_s, pc0) + 1,
                                cnt == depth(code_s, pc as int) - depth(code_s, pc0 + 1),
                                forall|j: int| pc0 < j < pc ==> #[trigger] depth(code_s, j + 1) > depth(code_s, pc0),
                            ensures
                                pc0 + 1 <= pc <= code_s.len(),
                                pc < code_s.len() ==> (code_s[pc as int] == 0x5Du8 && cnt == 0),
                            ${DEC2}
@@ impl<C: CellType> InplaceInterpreter<'_, C>${V} > fn execute_in @ loop 2 body_start
                            proof {
                                assert(depth(code_s, pc as int + 1) == depth(code_s, pc as int) + (if code_s[pc as int] == 0x5Bu8 { 1int } else if code_s[pc as int] == 0x5Du8 { -1int } else { 0int }));
                            }
@@ impl<C: CellType> InplaceInterpreter<'_, C>${V} > fn execute_in @ loop 2 before
                        proof { lemma_depth_step(code_s, pc0); }
@@ impl<C: CellType> InplaceInterpreter<'_, C>${V} > fn execute_in @ loop 2 after
                        proof {
                            if balanced(code_s) {
                                if pc < code_s.len() {
                                    assert(matches(code_s, pc0, pc as int));
                                    lemma_match_unique_q(code_s, pc0, pc as int, close_of(code_s, pc0));
                                    lemma_stack_skip(code_s, pc0, pc as int, loop_stack@);
                                } else {
                                    // no match up to the end contradicts balance
                                    if pc0 + 1 < code_s.len() {
                                        assert(depth(code_s, (code_s.len() - 1) + 1) > depth(code_s, pc0));
                                    }
                                    assert(depth(code_s, pc0) >= 0);
                                    assert(false);
                                }
                            }
                        }
@@ impl<C: CellType> InplaceInterpreter<'_, C>${V} > fn execute_in @ if 3 else_start
                        proof { if balanced(code_s) { lemma_stack_enter(code_s, pc0, loop_stack@); } }
#@end
