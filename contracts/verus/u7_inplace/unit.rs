// U7 `inplace` -- Verus unit for property C04 (and the in-place parts of C07, C08).
// DESIGN.md section 4-U7.  The interpreter function, the runtime structs and the signatures of
// the runtime functions it calls are cut out of /repo on every run; contracts come from splices.vs.
use vstd::prelude::*;
use vstd::string::StringSliceAdditionalSpecFns;
use vstd::arithmetic::power2::*;
use std::marker::PhantomData;
use vstd::std_specs::cmp::PartialEqSpec;
use std::{fmt::Debug, hash::Hash};
use std::io::{Read, Write};
verus! {

// std::io::{Read, Write} are only named (inside Box<dyn ..> fields of Context); no method of theirs
// is called in this unit.
#[verifier::external_trait_specification]
pub trait ExRead { type ExternalTraitSpecificationFor: Read; }
#[verifier::external_trait_specification]
pub trait ExWrite { type ExternalTraitSpecificationFor: Write; }

pub open spec fn m_of(bits: nat) -> int { pow2(bits) as int }

// ------------------------------------------------------------------ boundary: CellType (contracts proved in unit u1_cell)
//@extract src/lib.rs :: trait CellType { const BITS, const ZERO, const ONE, const NEG_ONE, fn wrapping_add, boundary fn from_u8, boundary fn into_u8 }

//@extract src/lib.rs :: enum ErrorKind
//@extract src/lib.rs :: struct Error

// ------------------------------------------------------------------ event log vocabulary
pub enum Call { In, Out(u8) }

pub struct Oracle {
    pub inp: spec_fn(nat) -> Option<u8>,   // result of the k-th input() call (Some(0) at end of input)
    pub out: spec_fn(nat) -> bool,         // does the j-th output() call succeed
}


// ------------------------------------------------------------------ boundary: runtime (contracts checked in unit u2_tape)
//@extract src/runtime.rs :: struct Memory
//@extract src/runtime.rs :: struct Context

pub uninterp spec fn mem_view<C: CellType>(m: Memory<C>, i: int) -> C;
pub uninterp spec fn io_calls<'a>(i: Option<Box<dyn Read + 'a>>, o: Option<Box<dyn Write + 'a>>) -> Seq<Call>;
pub uninterp spec fn io_n_in<'a>(i: Option<Box<dyn Read + 'a>>, o: Option<Box<dyn Write + 'a>>) -> nat;
pub uninterp spec fn io_n_out<'a>(i: Option<Box<dyn Read + 'a>>, o: Option<Box<dyn Write + 'a>>) -> nat;
pub uninterp spec fn io_oracle<'a>(i: Option<Box<dyn Read + 'a>>, o: Option<Box<dyn Write + 'a>>) -> Oracle;

//@extract src/runtime.rs :: impl<C: CellType> Memory<C> { boundary fn mov, boundary fn read, boundary fn write }
//@extract src/runtime.rs :: impl<'a, C: CellType> Context<'a, C> { boundary fn input, boundary fn output }

// ------------------------------------------------------------------ canonical Brainfuck (the oracle)
pub open spec fn depth(code: Seq<u8>, k: int) -> int
    decreases k
{
    if k <= 0 { 0 }
    else if code[k - 1] == 0x5Bu8 { depth(code, k - 1) + 1 }     // '['
    else if code[k - 1] == 0x5Du8 { depth(code, k - 1) - 1 }     // ']'
    else { depth(code, k - 1) }
}

pub open spec fn balanced(code: Seq<u8>) -> bool {
    depth(code, code.len() as int) == 0
    && forall|k: int| 0 <= k <= code.len() ==> #[trigger] depth(code, k) >= 0
}

/// p is a '[' and q its matching ']'.
pub open spec fn matches(code: Seq<u8>, p: int, q: int) -> bool {
    0 <= p < q < code.len() && code[p] == 0x5Bu8 && code[q] == 0x5Du8
    && depth(code, q + 1) == depth(code, p)
    && forall|j: int| p < j < q ==> #[trigger] depth(code, j + 1) > depth(code, p)
}

pub open spec fn close_of(code: Seq<u8>, p: int) -> int { choose|q: int| matches(code, p, q) }
pub open spec fn open_of(code: Seq<u8>, q: int) -> int { choose|p: int| matches(code, p, q) }

pub open spec fn upd(t: spec_fn(int) -> nat, k: int, x: nat) -> spec_fn(int) -> nat {
    |i: int| if i == k { x } else { t(i) }
}

pub struct Cfg {
    pub pc: int,
    pub ptr: int,
    pub tape: spec_fn(int) -> nat,
    pub calls: Seq<Call>,
    pub n_in: nat,
    pub n_out: nat,
    pub stopped: bool,
}

pub open spec fn canon_step(code: Seq<u8>, w: nat, orc: Oracle, c: Cfg) -> Cfg
    recommends 0 <= c.pc < code.len(), !c.stopped
{
    let m = pow2(w);
    let cur = (c.tape)(c.ptr);
    let op = code[c.pc];
    if op == 0x3Cu8 { Cfg { pc: c.pc + 1, ptr: c.ptr - 1, ..c } }
    else if op == 0x3Eu8 { Cfg { pc: c.pc + 1, ptr: c.ptr + 1, ..c } }
    else if op == 0x2Bu8 { Cfg { pc: c.pc + 1, tape: upd(c.tape, c.ptr, (cur + 1) % m), ..c } }
    else if op == 0x2Du8 { Cfg { pc: c.pc + 1, tape: upd(c.tape, c.ptr, ((cur + m - 1) as nat) % m), ..c } }
    else if op == 0x2Eu8 {
        let c2 = Cfg { calls: c.calls.push(Call::Out((cur % 256) as u8)), n_out: c.n_out + 1, ..c };
        if (orc.out)(c.n_out) { Cfg { pc: c.pc + 1, ..c2 } } else { Cfg { stopped: true, ..c2 } }
    }
    else if op == 0x2Cu8 {
        let c2 = Cfg { calls: c.calls.push(Call::In), n_in: c.n_in + 1, ..c };
        match (orc.inp)(c.n_in) {
            Some(b) => Cfg { pc: c.pc + 1, tape: upd(c.tape, c.ptr, b as nat), ..c2 },
            None => Cfg { stopped: true, ..c2 },
        }
    }
    else if op == 0x5Bu8 {
        if cur == 0 { Cfg { pc: close_of(code, c.pc) + 1, ..c } } else { Cfg { pc: c.pc + 1, ..c } }
    }
    else if op == 0x5Du8 {
        if cur != 0 { Cfg { pc: open_of(code, c.pc) + 1, ..c } } else { Cfg { pc: c.pc + 1, ..c } }
    }
    else { Cfg { pc: c.pc + 1, ..c } }
}

pub open spec fn halted(code: Seq<u8>, c: Cfg) -> bool { c.stopped || c.pc >= code.len() }

pub open spec fn canon_run(code: Seq<u8>, w: nat, orc: Oracle, c0: Cfg, n: nat) -> Cfg
    decreases n
{
    if n == 0 { c0 } else {
        let c = canon_run(code, w, orc, c0, (n - 1) as nat);
        if halted(code, c) { c } else { canon_step(code, w, orc, c) }
    }
}


// ------------------------------------------------------------------ proof vocabulary
pub open spec fn stack_ok(code: Seq<u8>, pc: int, stack: Seq<usize>) -> bool {
    stack.len() == depth(code, pc)
    && forall|idx: int| 0 <= idx < stack.len() ==> {
        let p = #[trigger] stack[idx] as int - 1;
        0 <= p < pc && code[p] == 0x5Bu8 && depth(code, p) == idx
        && forall|j: int| p < j < pc ==> #[trigger] depth(code, j + 1) > idx
    }
}

pub open spec fn stack_le(stack: Seq<usize>, n: nat) -> bool {
    forall|idx: int| 0 <= idx < stack.len() ==> #[trigger] stack[idx] <= n
}

pub open spec fn rel<C: CellType>(c: Cfg, cxt: &Context<C>, pc: int) -> bool {
    c.pc == pc && !c.stopped
    && (forall|i: int| (#[trigger] cxt.memory.view(i)).v() == (c.tape)(c.ptr + i))
    && c.calls == cxt.calls() && c.n_in == cxt.n_in() && c.n_out == cxt.n_out()
}

pub open spec fn init_cfg<C: CellType>(cxt: &Context<C>) -> Cfg {
    Cfg { pc: 0, ptr: 0, tape: |i: int| cxt.memory.view(i).v(), calls: cxt.calls(),
          n_in: cxt.n_in(), n_out: cxt.n_out(), stopped: false }
}

pub proof fn lemma_match_unique_q(code: Seq<u8>, p: int, q1: int, q2: int)
    requires matches(code, p, q1), matches(code, p, q2)
    ensures q1 == q2
{
    if q1 < q2 { assert(depth(code, q1 + 1) > depth(code, p)); }
    if q2 < q1 { assert(depth(code, q2 + 1) > depth(code, p)); }
}

pub proof fn lemma_match_unique_p(code: Seq<u8>, p1: int, p2: int, q: int)
    requires matches(code, p1, q), matches(code, p2, q)
    ensures p1 == p2
{
    // wlog p1 < p2: then p2 in (p1, q): depth(p2+1) > depth(p1) = depth(q+1) = depth(p2); and depth(p2) = depth(p2+1) - 1
    if p1 < p2 {
        assert(depth(code, p2 + 1) > depth(code, p1));
        assert(depth(code, p2 + 1) == depth(code, p2) + 1);
        // need depth(p2) > depth(p1) or a contradiction: j = p2-1? depth(p2) is depth((p2-1)+1)
        if p2 - 1 > p1 { assert(depth(code, (p2 - 1) + 1) > depth(code, p1)); }
        else { assert(p2 == p1 + 1); assert(depth(code, p1 + 1) == depth(code, p1) + 1); }
        assert(depth(code, p2) > depth(code, p1));
        assert(false);
    }
    if p2 < p1 {
        assert(depth(code, p1 + 1) == depth(code, p1) + 1);
        if p1 - 1 > p2 { assert(depth(code, (p1 - 1) + 1) > depth(code, p2)); }
        else { assert(p1 == p2 + 1); assert(depth(code, p2 + 1) == depth(code, p2) + 1); }
        assert(depth(code, p1) > depth(code, p2));
        assert(false);
    }
}



pub proof fn lemma_depth_step(code: Seq<u8>, k: int)
    requires 0 <= k < code.len()
    ensures depth(code, k + 1) == depth(code, k)
        + (if code[k] == 0x5Bu8 { 1int } else if code[k] == 0x5Du8 { -1int } else { 0int })
{}

pub proof fn lemma_stack_plain(code: Seq<u8>, k: int, stack: Seq<usize>)
    requires 0 <= k < code.len(), code[k] != 0x5Bu8, code[k] != 0x5Du8, stack_ok(code, k, stack)
    ensures stack_ok(code, k + 1, stack)
{
    lemma_depth_step(code, k);
    assert forall|idx: int| 0 <= idx < stack.len() implies {
        let p = #[trigger] stack[idx] as int - 1;
        0 <= p < k + 1 && code[p] == 0x5Bu8 && depth(code, p) == idx
        && forall|j: int| p < j < k + 1 ==> #[trigger] depth(code, j + 1) > idx
    } by {
        let p = stack[idx] as int - 1;
        assert forall|j: int| p < j < k + 1 implies #[trigger] depth(code, j + 1) > idx by {
            if j == k { } else { }
        }
    }
}

pub proof fn lemma_stack_enter(code: Seq<u8>, p: int, stack: Seq<usize>)
    requires 0 <= p < code.len(), code[p] == 0x5Bu8, stack_ok(code, p, stack), p + 1 <= usize::MAX
    ensures stack_ok(code, p + 1, stack.push((p + 1) as usize))
{
    lemma_depth_step(code, p);
    let s2 = stack.push((p + 1) as usize);
    assert forall|idx: int| 0 <= idx < s2.len() implies {
        let pp = #[trigger] s2[idx] as int - 1;
        0 <= pp < p + 1 && code[pp] == 0x5Bu8 && depth(code, pp) == idx
        && forall|j: int| pp < j < p + 1 ==> #[trigger] depth(code, j + 1) > idx
    } by {
        if idx < stack.len() {
            assert(s2[idx] == stack[idx]);
            let pp = stack[idx] as int - 1;
            assert forall|j: int| pp < j < p + 1 implies #[trigger] depth(code, j + 1) > idx by { }
        } else {
            assert(s2[idx] == (p + 1) as usize);
        }
    }
}

pub proof fn lemma_stack_skip(code: Seq<u8>, p: int, q: int, stack: Seq<usize>)
    requires matches(code, p, q), stack_ok(code, p, stack)
    ensures stack_ok(code, q + 1, stack)
{
    lemma_depth_step(code, p);
    assert forall|idx: int| 0 <= idx < stack.len() implies {
        let pp = #[trigger] stack[idx] as int - 1;
        0 <= pp < q + 1 && code[pp] == 0x5Bu8 && depth(code, pp) == idx
        && forall|j: int| pp < j < q + 1 ==> #[trigger] depth(code, j + 1) > idx
    } by {
        let pp = stack[idx] as int - 1;
        assert forall|j: int| pp < j < q + 1 implies #[trigger] depth(code, j + 1) > idx by {
            if j < p { } else if j == p { } else if j < q { assert(depth(code, j + 1) > depth(code, p)); } else { }
        }
    }
}

pub proof fn lemma_stack_close(code: Seq<u8>, q: int, stack: Seq<usize>)
    requires balanced(code), 0 <= q < code.len(), code[q] == 0x5Du8, stack_ok(code, q, stack)
    ensures
        stack.len() >= 1,
        matches(code, stack.last() as int - 1, q),
        open_of(code, q) == stack.last() as int - 1,
        stack_ok(code, stack.last() as int, stack),
        stack_ok(code, q + 1, stack.drop_last()),
{
    lemma_depth_step(code, q);
    assert(depth(code, q + 1) >= 0);
    let p = stack.last() as int - 1;
    let top = stack.len() - 1;
    assert(stack[top] == stack.last());
    lemma_depth_step(code, p);
    assert(matches(code, p, q));
    lemma_match_unique_p(code, p, open_of(code, q), q);
    // jump back: same stack at pc = p+1
    assert forall|idx: int| 0 <= idx < stack.len() implies {
        let pp = #[trigger] stack[idx] as int - 1;
        0 <= pp < p + 1 && code[pp] == 0x5Bu8 && depth(code, pp) == idx
        && forall|j: int| pp < j < p + 1 ==> #[trigger] depth(code, j + 1) > idx
    } by {
        let pp = stack[idx] as int - 1;
        if idx < top {
            // pp < p because depth(pp) == idx < top == depth(p) and the loop at pp is still open at p
            if pp >= p {
                if pp > p { assert(depth(code, (pp - 1) + 1) > top) by { if pp - 1 > p { } else { } }; }
                assert(false);
            }
        }
    }
    // exit: popped stack at pc = q+1
    let s2 = stack.drop_last();
    assert forall|idx: int| 0 <= idx < s2.len() implies {
        let pp = #[trigger] s2[idx] as int - 1;
        0 <= pp < q + 1 && code[pp] == 0x5Bu8 && depth(code, pp) == idx
        && forall|j: int| pp < j < q + 1 ==> #[trigger] depth(code, j + 1) > idx
    } by {
        assert(s2[idx] == stack[idx]);
    }
}


pub open spec fn str_bytes(s: &str) -> Seq<u8> { s.spec_bytes() }

/// the canonical run of `code` from `c0` reaches a halted configuration
pub open spec fn canon_halts(code: Seq<u8>, w: nat, orc: Oracle, c0: Cfg) -> bool {
    exists|k: nat| halted(code, #[trigger] canon_run(code, w, orc, c0, k))
}

/// once halted, always halted (canon_run stutters)
pub proof fn lemma_halted_stable(code: Seq<u8>, w: nat, orc: Oracle, c0: Cfg, k: nat, j: nat)
    requires halted(code, canon_run(code, w, orc, c0, k)), k <= j
    ensures canon_run(code, w, orc, c0, j) == canon_run(code, w, orc, c0, k)
    decreases j
{
    if j > k {
        lemma_halted_stable(code, w, orc, c0, k, (j - 1) as nat);
    }
}

/// a configuration that is not yet halted comes strictly before every halting step count
pub proof fn lemma_not_halted_before(code: Seq<u8>, w: nat, orc: Oracle, c0: Cfg, n: nat, big_n: nat)
    requires !halted(code, canon_run(code, w, orc, c0, n)), halted(code, canon_run(code, w, orc, c0, big_n))
    ensures n < big_n
{
    if big_n <= n {
        lemma_halted_stable(code, w, orc, c0, big_n, n);
    }
}

//@extract src/exec/inplace.rs :: struct InplaceInterpreter
//@extract src/exec/inplace.rs :: impl<C: CellType> InplaceInterpreter<'_, C> { fn execute_in }
//@extract src/exec/inplace.rs :: impl<C: CellType> InplaceInterpreter<'_, C> { fn execute_in } #limited
//@extract src/exec/inplace.rs :: impl<C: CellType> InplaceInterpreter<'_, C> { fn execute_in } #total

} // verus!
fn main() {}
