#@ Contract clauses for U11 `window` (C06: generator-side precondition of the unchecked operand accesses).
@@ struct Analysis @ pub
@@ impl Analysis > fn accessed @ shape
if if
@@ impl Analysis > fn accessed @ sig
        ensures
            // the offset is inside the window afterwards
            final(self).min_accessed <= var <= final(self).max_accessed,
            #@canary final(self).min_accessed > var,
            // the window only grows, and only as far as needed
            final(self).min_accessed <= old(self).min_accessed, final(self).max_accessed >= old(self).max_accessed,
            final(self).min_accessed == old(self).min_accessed || final(self).min_accessed == var,
            final(self).max_accessed == old(self).max_accessed || final(self).max_accessed == var,
            final(self).has_shift == old(self).has_shift, final(self).writes == old(self).writes,
@@ impl Analysis > fn written @ shape
if
@@ impl Analysis > fn written @ sig
        ensures
            // "written addresses also count as accessed" -- whether or not a shift has been seen
            final(self).min_accessed <= var <= final(self).max_accessed,
            final(self).min_accessed <= old(self).min_accessed, final(self).max_accessed >= old(self).max_accessed,
            final(self).has_shift == old(self).has_shift,
