// U11 `window` -- Verus unit: the two primitives with which `bc::Analysis::analyze` computes the
// access window [min_accessed, max_accessed] that both bytecode back ends keep inside the tape
// (src/bc.rs).  Every operand offset the analysis sees goes through `accessed` (reads, conditions,
// sub-block bounds) or `written` (stores, inputs): the contract says the offset lies inside the
// window afterwards and the window only ever grows.  The traversal itself (`analyze`: iterator
// adapters, HashSet iteration, recursion over the IR) is outside Verus; it is covered by the
// bounded stand-in n2_bc_passes/translate_shape.
use vstd::prelude::*;
use std::collections::HashSet;
verus! {

//@extract src/bc.rs :: struct Analysis
//@extract src/bc.rs :: impl Analysis { fn accessed, fn written }

} // verus!
fn main() {}
