#@ Contract clauses for U1 `cell_arith` (C14).  Keys are item paths; anchors are structural.
#@ Top-level postconditions are taken from the property statement; helper clauses from the code.

@@ trait CellType @ open
    // ---- spec-only members (added by the splicer; no run-time meaning) ----
    /// Mathematical value of a cell: 0 <= v < 2^bits.
    spec fn v(self) -> nat;
    spec fn bits() -> nat;
    /// 2-adic valuation (BITS for zero).
    spec fn tz(self) -> nat;

    proof fn facts()
        ensures Self::bits() == Self::BITS as nat, 8 <= Self::bits() <= 64,
                Self::ZERO.v() == 0, Self::ONE.v() == 1, Self::NEG_ONE.v() == pow2(Self::bits()) - 1;
    proof fn v_lt(x: Self) ensures x.v() < pow2(Self::bits());
    proof fn eq_facts(a: Self, b: Self)
        ensures <Self as PartialEqSpec>::obeys_eq_spec(), a.eq_spec(&b) == (a.v() == b.v());
    proof fn eq_all()
        ensures <Self as PartialEqSpec>::obeys_eq_spec(),
                forall|a: Self, b: Self| #[trigger] a.eq_spec(&b) == (a.v() == b.v());
    proof fn tz_facts(x: Self)
        ensures x.tz() <= Self::bits(),
                x.v() == 0 ==> x.tz() == Self::bits(),
                x.v() != 0 ==> x.tz() < Self::bits() && x.v() % pow2(x.tz()) == 0
                                  && (x.v() / pow2(x.tz())) % 2 == 1;

@@ trait CellType > fn into_u64 @ d3 r
@@ trait CellType > fn into_u64 @ sig
        ensures r as nat == self.v()
@@ trait CellType > fn into_i64 @ d3 r
@@ trait CellType > fn into_i64 @ sig
        ensures r as int == signed_of(self.v(), Self::bits())
@@ trait CellType > fn from_u64 @ d3 r
@@ trait CellType > fn from_u64 @ sig
        ensures r.v() == (val as nat) % pow2(Self::bits())
@@ trait CellType > fn wrapping_add @ d3 r
@@ trait CellType > fn wrapping_add @ sig
        ensures r.v() as int == (self.v() + rhs.v()) as int % m_of(Self::bits())
@@ trait CellType > fn wrapping_mul @ d3 r
@@ trait CellType > fn wrapping_mul @ sig
        ensures r.v() as int == (self.v() * rhs.v()) as int % m_of(Self::bits())
@@ trait CellType > fn wrapping_neg @ d3 r
@@ trait CellType > fn wrapping_neg @ sig
        ensures r.v() as int == (m_of(Self::bits()) - self.v()) % m_of(Self::bits())
@@ trait CellType > fn bitand @ d3 r
@@ trait CellType > fn bitand @ sig
        ensures forall|j: nat| j <= Self::bits() && rhs.v() + 1 == pow2(j) ==> r.v() == self.v() % pow2(j)
@@ trait CellType > fn wrapping_shr @ d3 r
@@ trait CellType > fn wrapping_shr @ sig
        ensures r.v() == (if (by as nat) < Self::bits() { self.v() / pow2(by as nat) } else { 0 })
@@ trait CellType > fn wrapping_shl @ d3 r
@@ trait CellType > fn wrapping_shl @ sig
        ensures r.v() as int == (if (by as nat) < Self::bits() { (self.v() * pow2(by as nat)) as int % m_of(Self::bits()) } else { 0 })
@@ trait CellType > fn trailing_zeros @ d3 r
@@ trait CellType > fn trailing_zeros @ sig
        ensures r as nat == self.tz()

#@ ---------------------------------------------------------------- default methods (real bodies)
@@ trait CellType > fn is_odd @ shape
@@ trait CellType > fn is_odd @ d3 r
@@ trait CellType > fn is_odd @ sig
        ensures r == (self.v() % 2 == 1)
@@ trait CellType > fn is_odd @ body_start
        proof {
            Self::facts(); lemma2_to64();
            Self::eq_all();
            assert(Self::ONE.v() + 1 == pow2(1));
        }

@@ trait CellType > fn wrapping_pow @ shape
while if
@@ trait CellType > fn wrapping_pow @ d1 self=base
@@ trait CellType > fn wrapping_pow @ d1 exp=exp_0
@@ trait CellType > fn wrapping_pow @ d3 r
@@ trait CellType > fn wrapping_pow @ sig
        // "modular power equals repeated multiplication"
        ensures r.v() as int == pow(self.v() as int, exp_0.v()) % m_of(Self::bits())
@@ trait CellType > fn wrapping_pow @ loop 1
            invariant
                m_of(Self::bits()) > 1,
                (result.v() as int * pow(base.v() as int, exp.v())) % m_of(Self::bits())
                    == pow(self.v() as int, exp_0.v()) % m_of(Self::bits()),
            decreases exp.v()
@@ trait CellType > fn wrapping_pow @ loop 1 body_start
            let ghost m = m_of(Self::bits());
            let ghost b0 = base.v() as int;
            let ghost e0 = exp.v();
            let ghost r0 = result.v() as int;
            proof {
                Self::facts(); lemma2_to64(); Self::eq_facts(exp, Self::ZERO);
                assert(e0 != 0);
                lemma_div_decreases(e0 as int, 2);
                lemma_pow_halve(b0, e0);
            }
@@ trait CellType > fn wrapping_pow @ loop 1 body_end
            proof {
                let q = e0 / 2;
                assert(pow2(1) == 2) by { lemma2_to64(); }
                assert(exp.v() == q);
                lemma_pow_mod(b0 * b0, q, m);
                assert(base.v() as int == (b0 * b0) % m);
                let pb = pow(b0 * b0, q);
                let pb2 = pow(base.v() as int, q);
                assert(pb2 % m == pb % m);
                if e0 % 2 == 1 {
                    assert(result.v() as int == (r0 * b0) % m);
                    lemma_mod_twice(r0 * b0, m);
                    lemma_mul_cong(result.v() as int, r0 * b0, pb2, pb, m);
                    assert((r0 * b0) * pb == r0 * (pb * b0)) by (nonlinear_arith);
                } else {
                    lemma_mul_cong(result.v() as int, r0, pb2, pb, m);
                    assert(pb * 1 == pb);
                }
            }
@@ trait CellType > fn wrapping_pow @ loop 1 after
        proof {
            Self::eq_facts(exp, Self::ZERO); Self::facts();
            reveal(pow);
            assert(pow(base.v() as int, 0) == 1);
            Self::v_lt(result);
            lemma_small_mod(result.v(), pow2(Self::bits()));
        }
@@ trait CellType > fn wrapping_pow @ loop 1 before
        proof {
            Self::facts(); lemma_pow2_pos(Self::bits());
            assert(pow2(Self::bits()) > 1) by { lemma_pow2_strictly_increases(0, Self::bits()); lemma2_to64(); }
            lemma_small_mod(1, pow2(Self::bits()));
            reveal(pow);
        }

@@ trait CellType > fn wrapping_inv @ shape
if else
@@ trait CellType > fn wrapping_inv @ d3 r
@@ trait CellType > fn wrapping_inv @ sig
        // "the modular inverse exists exactly for odd values and multiplies back to 1"
        ensures match r {
            Some(i) => self.v() % 2 == 1 && (i.v() * self.v()) as int % m_of(Self::bits()) == 1,
            None => self.v() % 2 == 0,
        }
@@ trait CellType > fn wrapping_inv @ if 1 then_start
            proof { Self::facts(); }
@@ trait CellType > fn wrapping_inv @ if 1 then_tail
            proof {
                let w = Self::bits();
                let m = m_of(w);
                let a = self.v() as int;
                let h = pow2((w - 1) as nat) as int;
                lemma_pow2_pos(w); lemma_pow2_pos((w - 1) as nat);
                lemma_pow2_unfold(w);
                assert(m == 2 * h);
                assert(1 * h == h);
                lemma_small_mod(h as nat, m as nat);
                assert(tot.v() as int == h);
                lemma_mod_multiples_vanish(1, h - 1, m);
                lemma_small_mod((h - 1) as nat, m as nat);
                assert((h + (m - 1)) % m == h - 1);
                assert(inv.v() as int == pow(a, (h - 1) as nat) % m);
                lemma_pow_adds(a, (h - 1) as nat, 1);
                lemma_pow1(a);
                assert(pow(a, h as nat) == pow(a, (h - 1) as nat) * a);
                lemma_odd_pow_one(a, w);
                assert(pow(a, h as nat) % m == 1);
                lemma_mod_twice(pow(a, (h - 1) as nat), m);
                lemma_mul_cong(inv.v() as int, pow(a, (h - 1) as nat), a, a, m);
            }

@@ trait CellType > fn wrapping_div @ shape
if else if else
@@ trait CellType > fn wrapping_div @ d3 r
@@ trait CellType > fn wrapping_div @ sig
        // "returns the smallest x with x*d = n (mod 2^width) and none exactly when no such x exists"
        ensures
            #@canary r.is_none() && r.is_some(),
            match r {
            Some(x) => (x.v() * div.v()) as int % m_of(Self::bits()) == self.v()
                && forall|y: int| 0 <= y && #[trigger] ((y * div.v() as int) % m_of(Self::bits())) == self.v() ==> y >= x.v(),
            None => forall|y: int| 0 <= y ==> #[trigger] ((y * div.v() as int) % m_of(Self::bits())) != self.v(),
        }
@@ trait CellType > fn wrapping_div @ body_start
        let ghost n = self.v() as int;
        let ghost div_0 = div;     // the body shadows `div` later
        let ghost d = div_0.v() as int;
        let ghost w = Self::bits();
        let ghost m = m_of(w);
        proof { Self::facts(); Self::eq_all(); Self::v_lt(self); Self::v_lt(div_0); lemma_pow2_pos(w); }
@@ trait CellType > fn wrapping_div @ if 1 then_start
            proof {
                assert(0 * d == 0);
                lemma_small_mod(0, m as nat);
            }
@@ trait CellType > fn wrapping_div @ if 2 then_start
            proof {
                Self::tz_facts(self); Self::tz_facts(div_0);
                lemma_div_none(n, d, w, div_0.tz(), self.tz());
            }
@@ trait CellType > fn wrapping_div @ if 2 else_start
            proof { Self::tz_facts(self); Self::tz_facts(div_0); assert(n != 0); assert((shift as nat) < w); }
@@ trait CellType > fn wrapping_div @ if 2 else_tail
            proof {
                Self::tz_facts(self); Self::tz_facts(div_0);
                let sh = shift as nat;
                let k = (w - sh) as nat;
                let S = pow2(sh) as int;
                let P = pow2(k) as int;
                lemma_pow2_pos(sh); lemma_pow2_pos(k); lemma_pow2_pos((k - 1) as nat);
                lemma_pow2_adds(sh, k);
                assert(m == S * P);
                assert(P > 1) by { lemma_pow2_strictly_increases(0, k); lemma2_to64(); }
                assert(P <= m) by (nonlinear_arith) requires m == S * P, S >= 1, P >= 1;
                let t = self.tz();
                lemma_pow2_adds(sh, (t - sh) as nat);
                lemma_pow2_pos((t - sh) as nat);
                lemma_mod_mod(n, S, pow2((t - sh) as nat) as int);
                lemma_small_mod(0, S as nat);
                assert(n % S == 0);
                assert(div.v() as int == d / S);
                let h = pow2((k - 1) as nat) as int;
                lemma_pow2_unfold(k);
                assert(P == 2 * h);
                assert(1 * h == h);
                lemma_small_mod(h as nat, m as nat);
                assert(tot.v() as int == h);
                lemma_mod_multiples_vanish(1, h - 1, m);
                lemma_small_mod((h - 1) as nat, m as nat);
                assert((h + (m - 1)) % m == h - 1);
                assert(inv.v() as int == pow(d / S, (h - 1) as nat) % m);
                lemma_mod_mod(pow(d / S, (h - 1) as nat), P, S);
                assert(S * P == P * S) by (nonlinear_arith);
                assert((inv.v() as int) % P == pow(d / S, (h - 1) as nat) % P);
                let np = n / S;
                assert(result.v() as int == (inv.v() as int * np) % m);
                lemma_mod_mod(inv.v() as int * np, P, S);
                let x = (inv.v() as int * np) % P;
                assert((result.v() as int) % P == x);
                lemma_div_core(n, d, w, sh, inv.v() as int, x);
                if sh == 0 {
                    assert(k == w);
                    lemma_small_mod((m - 1) as nat, m as nat);
                } else {
                    lemma_pow2_strictly_increases(k, w);
                    lemma_small_mod(P as nat, m as nat);
                    assert(1 * P == P);
                    lemma_mod_multiples_vanish(1, P - 1, m);
                    lemma_small_mod((P - 1) as nat, m as nat);
                }
            }

#@ ---------------------------------------------------------------- conversions (default methods)
@@ trait CellType > fn from_u8 @ d3 r
@@ trait CellType > fn from_u8 @ sig
        ensures r.v() == val as nat
@@ trait CellType > fn from_u8 @ body_start
        proof {
            Self::facts(); lemma2_to64();
            if Self::bits() > 8 { lemma_pow2_strictly_increases(8, Self::bits()); }
            lemma_small_mod(val as nat, pow2(Self::bits()));
        }
@@ trait CellType > fn into_u8 @ d3 r
@@ trait CellType > fn into_u8 @ sig
        ensures r as nat == self.v() % 256
@@ trait CellType > fn into_u8 @ body_start
        proof { assert(forall|x: u64| (#[trigger] (x as u8)) as u64 == x % 256) by (bit_vector); }
@@ trait CellType > fn from_i16 @ d3 r
@@ trait CellType > fn from_i16 @ sig
        // sign extension then truncation: the cell congruent to `val` modulo 2^bits
        ensures r.v() as int == (val as int) % m_of(Self::bits())
@@ trait CellType > fn from_i16 @ body_start
        proof {
            Self::facts(); lemma2_to64();
            let w = Self::bits();
            let m = m_of(w);
            lemma_pow2_pos(w);
            let x = val as i64 as u64;
            assert(val >= 0 ==> (val as i64 as u64) as int == val as int) by (bit_vector);
            assert(val < 0 ==> (val as i64 as u64) as int == val as int + 0x10000000000000000) by (bit_vector);
            // 2^64 is a multiple of 2^w
            lemma_pow2_adds(w, (64 - w) as nat);
            let k = pow2((64 - w) as nat) as int;
            assert(0x10000000000000000 == m * k);
            if val < 0 {
                lemma_mod_multiples_vanish(k, val as int, m);
                assert(k * m == m * k) by (nonlinear_arith);
            }
        }
@@ trait CellType > fn try_into_i16 @ d3 r
@@ trait CellType > fn try_into_i16 @ sig
        ensures match r {
            Some(s) => s as int == signed_of(self.v(), Self::bits()),
            None => signed_of(self.v(), Self::bits()) < -32768 || signed_of(self.v(), Self::bits()) > 32767,
        }

#@ ---------------------------------------------------------------- the four implementations
#@ Same text for every width; `${W}` = bits, `${T}` = type, `${M}` = 2^W as a u128 literal,
#@ `${H}` = 2^(W-1).
#@repeat W=8,T=u8,M=0x100,H=0x80 ; W=16,T=u16,M=0x10000,H=0x8000 ; W=32,T=u32,M=0x100000000,H=0x80000000 ; W=64,T=u64,M=0x10000000000000000,H=0x8000000000000000
@@ impl CellType for ${T} @ open
    open spec fn v(self) -> nat { self as nat }
    open spec fn bits() -> nat { ${W} }
    open spec fn tz(self) -> nat { vstd::std_specs::bits::${T}_trailing_zeros(self) as nat }

    proof fn facts() { lemma2_to64(); }
    proof fn v_lt(x: Self) { lemma2_to64(); }
    proof fn eq_facts(a: Self, b: Self) {}
    proof fn eq_all() {}
    proof fn tz_facts(x: Self) {
        vstd::std_specs::bits::axiom_${T}_trailing_zeros(x);
        let t = vstd::std_specs::bits::${T}_trailing_zeros(x);
        lemma2_to64();
        if x != 0 {
            let tt = t as ${T};
            assert(0 <= t < ${W});
            lemma_pow2_strictly_increases(t as nat, ${W});
            vstd::bits::lemma_${T}_shr_is_div(x, tt);
            assert(((x >> tt) & 1${T} == 1${T}) ==> ((x >> tt) % 2 == 1)) by (bit_vector);
            vstd::bits::lemma_${T}_shl_is_mul(1${T}, tt);
            assert(tt < ${W} && (x << sub(${W}${T}, tt)) == 0${T} ==> x % (1${T} << tt) == 0${T}) by (bit_vector);
        }
    }
@@ impl CellType for ${T} > fn into_u64 @ body_start
        proof { lemma2_to64(); }
@@ impl CellType for ${T} > fn from_u64 @ body_start
        proof { lemma2_to64(); assert((val as ${T}) as u128 == (val as u128) % ${M}u128) by (bit_vector); }
@@ impl CellType for ${T} > fn into_i64 @ body_start
        proof {
            lemma2_to64(); lemma_pow2_unfold(${W});
            assert(self < ${H} ==> (self as i${W}) as i128 == self as i128) by (bit_vector);
            assert(self >= ${H} ==> (self as i${W}) as i128 == self as i128 - ${M}i128) by (bit_vector);
        }
@@ impl CellType for ${T} > fn wrapping_add @ body_start
        proof {
            lemma2_to64();
            let t = self as int + rhs as int;
            if t >= ${M} { lemma_mod_multiples_vanish(-1, t, ${M}); lemma_small_mod((t - ${M}) as nat, ${M}); }
            else { lemma_small_mod(t as nat, ${M}); }
        }
@@ impl CellType for ${T} > fn wrapping_mul @ body_start
        proof { lemma2_to64(); }
@@ impl CellType for ${T} > fn wrapping_neg @ body_start
        proof {
            lemma2_to64();
            if self == 0 { lemma_mod_multiples_vanish(1, 0, ${M}); lemma_small_mod(0, ${M}); }
            else { lemma_small_mod((${M} - self as int) as nat, ${M}); }
        }
@@ impl CellType for ${T} > fn bitand @ body_start
        proof {
            lemma2_to64();
            assert forall|j: nat| j <= ${W} && rhs as nat + 1 == pow2(j) implies (self & rhs) as nat == self as nat % pow2(j) by {
                if j < ${W} {
                    lemma_pow2_strictly_increases(j, ${W});
                    vstd::bits::lemma_${T}_low_bits_mask_is_mod(self, j);
                    assert(vstd::bits::low_bits_mask(j) == rhs);
                } else {
                    lemma_small_mod(self as nat, pow2(${W}));
                    assert(rhs == ${T}::MAX);
                    assert(self & ${T}::MAX == self) by (bit_vector);
                }
            }
        }
@@ impl CellType for ${T} > fn wrapping_shr @ body_start
        proof { lemma2_to64(); if by < ${W} { vstd::bits::lemma_${T}_shr_is_div(self, by as ${T}); } }
@@ impl CellType for ${T} > fn wrapping_shl @ body_start
        proof {
            lemma2_to64();
            if by < ${W} {
                let b = by as ${T};
                lemma_pow2_strictly_increases(b as nat, ${W});
                if b < ${W} - 1 { lemma_pow2_strictly_increases(b as nat, (${W} - 1) as nat); }
                lemma_pow2_unfold(${W});
                vstd::bits::lemma_${T}_shl_is_mul(1${T}, b);
                assert(b < ${W} ==> ((self << b) as u128) == mul(self as u128, (1${T} << b) as u128) % ${M}u128) by (bit_vector);
                assert(mul(self as u128, (1${T} << b) as u128) as int == (self as int) * ((1${T} << b) as int)) by (nonlinear_arith)
                    requires (1${T} << b) <= ${H}, self <= ${T}::MAX;
            }
        }
#@end
