// U1 `cell_arith` -- Verus unit for property C14 (DESIGN.md section 4-U1).
// Everything between `//@extract` markers is cut out of /repo/src/lib.rs on every run by
// tools/extract.py; contract clauses come from splices.vs.  The rest of this file is
// specification vocabulary and lemmas (spec/proof code only -- nothing here executes).
use vstd::prelude::*;
use vstd::arithmetic::power2::*;
use vstd::arithmetic::power::*;
use vstd::arithmetic::div_mod::*;
use vstd::arithmetic::mul::*;
use vstd::std_specs::cmp::PartialEqSpec;
use std::{fmt::Debug, hash::Hash};
verus! {

// ---- number theory lemmas -------------------------------------------------------------

pub proof fn lemma_mul_cong(a: int, a2: int, b: int, b2: int, m: int)
    requires m > 0, a % m == a2 % m, b % m == b2 % m
    ensures (a * b) % m == (a2 * b2) % m
{
    lemma_mul_mod_noop_general(a, b, m);
    lemma_mul_mod_noop_general(a2, b2, m);
}

/// Reduction mod 2^bits is a ring homomorphism from Z/2^64: the low `bits` bits of a 64-bit
/// product depend only on the low `bits` bits of the operands.  (Used by unit u6_jit: the JIT
/// multiplies in 64-bit registers whatever the cell width, with sign-extended immediates.)
pub proof fn lemma_mul_low_bits(x: int, y: int, a: int, b: int, bits: nat)
    requires
        bits <= 64,
        x % (pow2(bits) as int) == a % (pow2(bits) as int),
        y % (pow2(bits) as int) == b % (pow2(bits) as int),
    ensures
        ((x * y) % (pow2(64) as int)) % (pow2(bits) as int) == (a * b) % (pow2(bits) as int),
{
    let m = pow2(bits) as int;
    let k = pow2((64 - bits) as nat) as int;
    lemma_pow2_pos(bits);
    lemma_pow2_pos((64 - bits) as nat);
    lemma_pow2_adds(bits, (64 - bits) as nat);
    assert(pow2(64) as int == m * k);
    lemma_mod_mod(x * y, m, k);
    lemma_mul_mod_noop_general(x, y, m);
    lemma_mul_mod_noop_general(a, b, m);
}

pub proof fn lemma_pow_mod(b: int, e: nat, m: int)
    requires m > 0
    ensures pow(b % m, e) % m == pow(b, e) % m
    decreases e
{
    reveal(pow);
    if e == 0 {
    } else {
        lemma_pow_mod(b, (e - 1) as nat, m);
        lemma_mod_twice(b, m);
        lemma_mul_cong(b % m, b, pow(b % m, (e-1) as nat), pow(b, (e-1) as nat), m);
    }
}

/// pow(b, e) == pow(b*b, e/2) * (b if e odd)
pub proof fn lemma_pow_halve(b: int, e: nat)
    ensures pow(b, e) == pow(b * b, e / 2) * (if e % 2 == 1 { b } else { 1 })
{
    let q = e / 2;
    lemma_fundamental_div_mod(e as int, 2);
    lemma_pow_multiplies(b, 2, q);       // pow(pow(b,2), q) == pow(b, 2*q)
    lemma_pow1(b);
    lemma_pow_adds(b, 1, 1);             // pow(b,2) == b*b
    assert(pow(b, 2) == b * b);
    if e % 2 == 1 {
        assert(e == 2 * q + 1);
        lemma_pow_adds(b, 2 * q, 1);
        assert(pow(b, e) == pow(b, 2 * q) * b);
    } else {
        assert(e == 2 * q);
    }
}


/// Euler for powers of two: a odd ==> a^(2^(k-1)) == 1 (mod 2^k), k >= 1.
pub proof fn lemma_odd_pow_one(a: int, k: nat)
    requires a >= 0, a % 2 == 1, k >= 1
    ensures pow(a, pow2((k - 1) as nat)) % (pow2(k) as int) == 1
    decreases k
{
    lemma2_to64();
    if k == 1 {
        lemma_pow1(a);
    } else {
        let k1 = (k - 1) as nat;
        lemma_odd_pow_one(a, k1);
        let e = pow2((k1 - 1) as nat);
        let t = pow(a, e);
        let p = pow2(k1) as int;      // 2^(k-1)
        lemma_pow2_pos(k1);
        assert(a > 0);
        lemma_pow_positive(a, e);
        assert(t > 0);
        // pow2(k1) == 2 * e ; pow2(k) == 2 * p
        lemma_pow2_unfold(k1);
        lemma_pow2_unfold(k);
        assert(pow2(k1) == 2 * e);
        assert(pow2(k) == 2 * p);
        // pow(a, 2e) == t*t
        lemma_pow_adds(a, e, e);
        assert(pow(a, pow2(k1)) == t * t);
        // t = 1 + m*p
        let m = t / p;
        lemma_fundamental_div_mod(t, p);
        assert(t == p * m + 1);
        // t*t = 1 + 2p * (m + m*m*(p/2))   where p even since k1 >= 1
        lemma_pow2_unfold(k1);
        let h = pow2((k1 - 1) as nat) as int; // p == 2h
        assert(p == 2 * h);
        assert(t * t == 1 + (2 * p) * (m + m * m * h)) by (nonlinear_arith)
            requires t == p * m + 1, p == 2 * h;
        lemma_mod_multiples_vanish(m + m * m * h, 1, 2 * p);
        lemma_small_mod(1, (2 * p) as nat);
    }
}



/// Core of the 2-adic division: all in mathematical integers.
pub proof fn lemma_div_core(n: int, d: int, w: nat, sh: nat, inv: int, x: int)
    requires
        sh < w,
        0 < n < pow2(w), 0 < d < pow2(w),
        d % (pow2(sh) as int) == 0, (d / (pow2(sh) as int)) % 2 == 1,
        n % (pow2(sh) as int) == 0,
        0 <= inv,
        inv % (pow2((w - sh) as nat) as int)
            == pow(d / (pow2(sh) as int), (pow2((w - sh - 1) as nat) - 1) as nat) % (pow2((w - sh) as nat) as int),
        x == (inv * (n / (pow2(sh) as int))) % (pow2((w - sh) as nat) as int),
    ensures
        0 <= x < pow2((w - sh) as nat),
        (x * d) % (pow2(w) as int) == n,
        forall|y: int| 0 <= y && #[trigger] ((y * d) % (pow2(w) as int)) == n ==> y >= x,
{
    let k = (w - sh) as nat;
    let S = pow2(sh) as int;
    let P = pow2(k) as int;
    let m = pow2(w) as int;
    let dp = d / S;
    let np = n / S;
    lemma_pow2_pos(sh); lemma_pow2_pos(k); lemma_pow2_pos(w);
    lemma_pow2_adds(sh, k);
    assert(m == S * P);
    assert(P > 1) by { lemma_pow2_strictly_increases(0, k); lemma2_to64(); }
    lemma_fundamental_div_mod(d, S);
    lemma_fundamental_div_mod(n, S);
    assert(d == S * dp);
    assert(n == S * np);
    // np < P
    assert(0 <= np < P) by (nonlinear_arith)
        requires n == S * np, 0 < n < S * P, S > 0;
    assert(dp > 0) by (nonlinear_arith) requires d == S * dp, d > 0, S > 0;
    // Euler: dp^(2^(k-1)) % P == 1
    lemma_odd_pow_one(dp, k);
    let h = pow2((k - 1) as nat) as int;
    lemma_pow2_pos((k - 1) as nat);
    let E = (h - 1) as nat;
    lemma_pow_adds(dp, E, 1);
    lemma_pow1(dp);
    assert(pow(dp, h as nat) == pow(dp, E) * dp);
    // inv * dp == 1 (mod P)
    lemma_mod_twice(pow(dp, E), P);
    lemma_mul_cong(inv, pow(dp, E), dp, dp, P);
    assert((inv * dp) % P == 1);
    lemma_mod_bound(inv * np, P);
    // Claim 1
    assert((x * dp) % P == np) by {
        // x == (inv*np) % P
        lemma_mod_twice(inv * np, P);
        lemma_mul_cong(x, inv * np, dp, dp, P);
        assert((inv * np) * dp == (inv * dp) * np) by (nonlinear_arith);
        lemma_small_mod(1, P as nat);
        lemma_mul_cong(inv * dp, 1, np, np, P);
        lemma_small_mod(np as nat, P as nat);
    }
    assert((x * d) % m == n) by {
        assert(x * d == S * (x * dp)) by (nonlinear_arith) requires d == S * dp;
        lemma_truncate_middle(x * dp, S, P);
    }
    // Claim 2
    assert forall|y: int| 0 <= y && #[trigger] ((y * d) % m) == n implies y >= x by {
        assert(y * d == S * (y * dp)) by (nonlinear_arith) requires d == S * dp;
        lemma_truncate_middle(y * dp, S, P);
        assert(S * ((y * dp) % P) == S * np);
        assert((y * dp) % P == np) by (nonlinear_arith)
            requires S * ((y * dp) % P) == S * np, S > 0;
        // y == y * (dp*inv) == (y*dp)*inv == np*inv == x (mod P)
        lemma_small_mod(1, P as nat);
        lemma_mul_cong(y, y, 1, inv * dp, P);
        assert(y * 1 == y);
        assert(y * (inv * dp) == (y * dp) * inv) by (nonlinear_arith);
        lemma_mod_twice(y * dp, P);
        lemma_small_mod(np as nat, P as nat);
        lemma_mul_cong(y * dp, np, inv, inv, P);
        assert(np * inv == inv * np) by (nonlinear_arith);
        assert(y % P == x);
        lemma_mod_bound(y, P);
        lemma_fundamental_div_mod(y, P);
        assert(y >= y % P) by (nonlinear_arith)
            requires y == P * (y / P) + y % P, y >= 0, P > 0, 0 <= y % P < P;
    }
}


/// No solution when the divisor has more trailing zeros than the dividend.
pub proof fn lemma_div_none(n: int, d: int, w: nat, sh: nat, t: nat)
    requires
        0 < n < pow2(w), 0 <= d < pow2(w),
        t < sh, sh <= w,
        d == 0 || d % (pow2(sh) as int) == 0,
        n % (pow2(t) as int) == 0, (n / (pow2(t) as int)) % 2 == 1,
    ensures
        forall|y: int| 0 <= y ==> #[trigger] ((y * d) % (pow2(w) as int)) != n,
{
    let m = pow2(w) as int;
    lemma_pow2_pos(w);
    assert forall|y: int| 0 <= y implies #[trigger] ((y * d) % m) != n by {
        if d == 0 {
            assert(y * d == 0) by (nonlinear_arith) requires d == 0;
            lemma_small_mod(0, m as nat);
        } else {
            let T = pow2(t + 1) as int;
            let A = pow2(t) as int;
            lemma_pow2_pos(t); lemma_pow2_pos(t + 1);
            lemma_pow2_unfold(t + 1);
            assert(T == 2 * A);
            // n % T == A != 0
            let q = n / A;
            lemma_fundamental_div_mod(n, A);
            assert(n == A * q);
            lemma_truncate_middle(q, A, 2);
            assert(n % T == A * (q % 2));
            assert(n % T == A);
            // T divides 2^sh and m
            let r1 = pow2((sh - t - 1) as nat) as int;
            let r2 = pow2((w - t - 1) as nat) as int;
            lemma_pow2_adds(t + 1, (sh - t - 1) as nat);
            lemma_pow2_adds(t + 1, (w - t - 1) as nat);
            lemma_pow2_pos((sh - t - 1) as nat); lemma_pow2_pos((w - t - 1) as nat);
            // d % T == 0
            lemma_mod_mod(d, T, r1);
            lemma_small_mod(0, T as nat);
            assert(d % T == 0);
            // (y*d) % T == 0
            lemma_mul_cong(y, y, d, 0, T);
            assert(y * 0 == 0);
            assert((y * d) % T == 0);
            // ((y*d) % m) % T == (y*d) % T
            lemma_mod_mod(y * d, T, r2);
            if (y * d) % m == n {
                assert(n % T == 0);
                assert(false);
            }
        }
    }
}


pub open spec fn m_of(bits: nat) -> int { pow2(bits) as int }

/// Two's complement reading of a `bits`-wide value.
pub open spec fn signed_of(v: nat, bits: nat) -> int {
    if v < pow2((bits - 1) as nat) { v as int } else { v as int - pow2(bits) as int }
}

//@extract src/lib.rs :: trait CellType

pub assume_specification [u8::checked_shr] (x: u8, by: u32) -> (r: Option<u8>)
    ensures r == (if by < 8 { Some(x >> by) } else { None::<u8> });
pub assume_specification [u8::checked_shl] (x: u8, by: u32) -> (r: Option<u8>)
    ensures r == (if by < 8 { Some(x << by) } else { None::<u8> });
pub assume_specification [u16::checked_shr] (x: u16, by: u32) -> (r: Option<u16>)
    ensures r == (if by < 16 { Some(x >> by) } else { None::<u16> });
pub assume_specification [u16::checked_shl] (x: u16, by: u32) -> (r: Option<u16>)
    ensures r == (if by < 16 { Some(x << by) } else { None::<u16> });
pub assume_specification [u32::checked_shr] (x: u32, by: u32) -> (r: Option<u32>)
    ensures r == (if by < 32 { Some(x >> by) } else { None::<u32> });
pub assume_specification [u32::checked_shl] (x: u32, by: u32) -> (r: Option<u32>)
    ensures r == (if by < 32 { Some(x << by) } else { None::<u32> });
pub assume_specification [u64::checked_shr] (x: u64, by: u32) -> (r: Option<u64>)
    ensures r == (if by < 64 { Some(x >> by) } else { None::<u64> });
pub assume_specification [u64::checked_shl] (x: u64, by: u32) -> (r: Option<u64>)
    ensures r == (if by < 64 { Some(x << by) } else { None::<u64> });


pub assume_specification [u8::wrapping_neg] (x: u8) -> (r: u8)
    ensures r == (if x == 0 { 0u8 } else { (u8::MAX - x + 1) as u8 });
pub assume_specification [u16::wrapping_neg] (x: u16) -> (r: u16)
    ensures r == (if x == 0 { 0u16 } else { (u16::MAX - x + 1) as u16 });
pub assume_specification [u32::wrapping_neg] (x: u32) -> (r: u32)
    ensures r == (if x == 0 { 0u32 } else { (u32::MAX - x + 1) as u32 });
pub assume_specification [u64::wrapping_neg] (x: u64) -> (r: u64)
    ensures r == (if x == 0 { 0u64 } else { (u64::MAX - x + 1) as u64 });

//@extract src/lib.rs :: impl CellType for u8
//@extract src/lib.rs :: impl CellType for u16
//@extract src/lib.rs :: impl CellType for u32
//@extract src/lib.rs :: impl CellType for u64

// ---- round-trip lemmas over the contracts above ("conversions round-trip as documented") ----
// Glue code written for this unit (not extracted): each function composes two real conversions and
// Verus checks the composition against the callee CONTRACTS only.

fn glue_roundtrip_u64<C: CellType>(x: C) -> (r: C)
    ensures r.v() == x.v()
{
    proof { C::v_lt(x); lemma_small_mod(x.v(), pow2(C::bits())); }
    C::from_u64(x.into_u64())
}

fn glue_roundtrip_u8<C: CellType>(b: u8) -> (r: u8)
    ensures r == b
{
    proof { lemma_small_mod(b as nat, 256); }
    C::from_u8(b).into_u8()
}

fn glue_roundtrip_i16<C: CellType>(x: C) -> (r: Option<C>)
    ensures r.is_some() ==> r.unwrap().v() == x.v()
{
    proof {
        C::facts(); C::v_lt(x); lemma_pow2_pos(C::bits());
        let m = m_of(C::bits());
        lemma_small_mod(x.v(), m as nat);
        // signed_of(v) is v or v - m: congruent to v modulo m either way
        lemma_mod_multiples_vanish(-1, x.v() as int, m);
    }
    match x.try_into_i16() {
        Some(s) => Some(C::from_i16(s)),
        None => None,
    }
}

} // verus!
fn main() {}
