#@ Vacuity canary: a deliberately false postcondition on a real function; this run MUST fail.
@@ trait CellType > fn wrapping_div @ sig
        , r.is_none() && r.is_some()
