// U10 `opt_loop` -- Verus unit: the loop trip-count analysis `OptRebuild::analyze_loop` and the
// `OptLoop` constructors (src/opt.rs), i.e. the CONSUMER of the cell-arithmetic helpers of C14:
// this is the one place where wrapping_div / wrapping_inv decide how often a loop runs.
// The analysis state (`OptRebuild`) is reduced to the three fields the function reads (D10); what it
// learns about the program comes through three boundary functions (`get_constant`, `is_non_zero`,
// `get`) whose results are uninterpreted here: the contract relates the RESULT to those answers.
use vstd::prelude::*;
use vstd::arithmetic::power2::*;
use vstd::arithmetic::power::*;
use vstd::arithmetic::div_mod::*;
use vstd::arithmetic::mul::*;
use vstd::std_specs::cmp::PartialEqSpec;
use std::{fmt::Debug, hash::Hash};
use std::marker::PhantomData;
verus! {

// x86-64 / any 64-bit target (the crate's JIT is x86-64 only; isize arithmetic on cell offsets)
global size_of usize == 8;

pub open spec fn m_of(bits: nat) -> int { pow2(bits) as int }

// ------------------------------------------------------------------ boundary: CellType (contracts proved in unit u1_cell)
//@extract src/lib.rs :: trait CellType { const BITS, const ZERO, const ONE, const NEG_ONE, fn wrapping_add, fn wrapping_mul, fn wrapping_neg, fn wrapping_shr, boundary fn is_odd, boundary fn wrapping_inv, boundary fn wrapping_div }

// ------------------------------------------------------------------ boundary: Expr (contracts of val/var/constant/const_inc_of/identity proved in unit u4_expr)
#[verifier::external_body]
#[verifier::reject_recursive_types(C)]
pub struct Expr<C: CellType> { p: PhantomData<C> }

/// value of an expression under an assignment of cell values (the same `eval` as unit u4_expr,
/// opaque here)
pub uninterp spec fn eval<C: CellType>(e: &Expr<C>, rho: spec_fn(isize) -> nat) -> int;

/// the expression has the same value `n` under every assignment
pub open spec fn is_const<C: CellType>(e: &Expr<C>, n: int) -> bool {
    forall|rho: spec_fn(isize) -> nat| #[trigger] eval(e, rho) == n
}

impl<C: CellType> Expr<C> {
    pub uninterp spec fn s_constant(&self) -> Option<C>;
    pub uninterp spec fn s_const_inc_of(&self, var: isize) -> Option<C>;
    pub uninterp spec fn s_identity(&self) -> Option<isize>;

    #[verifier::external_body]
    pub fn val(coef: C) -> (r: Self)
        ensures forall|rho: spec_fn(isize) -> nat| #[trigger] eval(&r, rho) == coef.v(),
                // a constant expression is recognised as such (proved in unit u4_expr as
                // `spec_constant(val(c))`)
                r.s_constant().is_some() && r.s_constant().unwrap().v() == coef.v(),
    { unimplemented!() }
    #[verifier::external_body]
    pub fn var(var: isize) -> (r: Self)
        ensures forall|rho: spec_fn(isize) -> nat| #[trigger] eval(&r, rho) == rho(var) as int % m_of(C::bits())
    { unimplemented!() }
    #[verifier::external_body]
    pub fn constant(&self) -> (r: Option<C>)
        ensures r == self.s_constant(), r.is_some() ==> forall|rho: spec_fn(isize) -> nat| #[trigger] eval(self, rho) == r.unwrap().v()
    { unimplemented!() }
    #[verifier::external_body]
    pub fn const_inc_of(&self, var: isize) -> (r: Option<C>)
        ensures r == self.s_const_inc_of(var), r.is_some() ==> forall|rho: spec_fn(isize) -> nat|
            #[trigger] eval(self, rho) == (rho(var) + r.unwrap().v()) as int % m_of(C::bits())
    { unimplemented!() }
    #[verifier::external_body]
    pub fn identity(&self) -> (r: Option<isize>)
        ensures r == self.s_identity(), r.is_some() ==> forall|rho: spec_fn(isize) -> nat|
            #[trigger] eval(self, rho) == rho(r.unwrap()) as int % m_of(C::bits())
    { unimplemented!() }
    /// ASSUMED (Expr::mul is outside both verifiers): the value of a product is the product of the values
    #[verifier::external_body]
    pub fn mul(&self, other: Self) -> (r: Self)
        ensures forall|rho: spec_fn(isize) -> nat|
            #[trigger] eval(&r, rho) == (eval(self, rho) * eval(&other, rho)) % m_of(C::bits())
    { unimplemented!() }
}

// ------------------------------------------------------------------ trip-count vocabulary
/// `n` is the number of iterations of a loop whose condition cell starts at `m` and changes by
/// `inc` per iteration (mod `md`): the least k with m + k*inc == 0
pub open spec fn least_trip(n: nat, m: int, inc: int, md: int) -> bool {
    (m + n * inc) % md == 0 && forall|k: nat| k < n ==> (m + #[trigger] (k * inc)) % md != 0
}

/// no number of iterations brings the condition cell to zero
pub open spec fn no_trip(m: int, inc: int, md: int) -> bool {
    forall|k: nat| (m + #[trigger] (k * inc)) % md != 0
}

/// y * (-inc mod md) == m (mod md)  <=>  m + y*inc == 0 (mod md)
pub proof fn lemma_neg_solution(y: int, inc: int, m: int, md: int)
    requires md > 0, 0 <= m < md, 0 <= inc < md, y >= 0
    ensures ((y * ((md - inc) % md)) % md == m) == ((m + y * inc) % md == 0)
{
    let d = (md - inc) % md;
    let t = (y * inc) % md;
    lemma_mod_bound(y * inc, md);
    // y*d == -(y*inc) (mod md):  y*d + y*inc == y*(d+inc) and (d + inc) % md == 0
    if inc == 0 {
        lemma_mod_multiples_basic(1, md);
        assert(md % md == 0) by { lemma_mod_self_0(md); }
        assert(d == 0);
        assert(y * d == 0) by (nonlinear_arith) requires d == 0;
        assert(y * inc == 0) by (nonlinear_arith) requires inc == 0;
        lemma_small_mod(0, md as nat);
        lemma_small_mod(m as nat, md as nat);
    } else {
        lemma_small_mod((md - inc) as nat, md as nat);
        assert(d == md - inc);
        assert(y * d == y * md - y * inc) by (nonlinear_arith) requires d == md - inc;
        // (y*md - y*inc) % md == (-(y*inc)) % md
        lemma_mod_multiples_vanish(y, -(y * inc), md);
        assert(y * md == md * y) by (nonlinear_arith);
        assert((y * d) % md == (-(y * inc)) % md);
        // -(y*inc) == -t (mod md)
        lemma_fundamental_div_mod(y * inc, md);
        let q = (y * inc) / md;
        assert(y * inc == md * q + t);
        lemma_mod_multiples_vanish(-q, -t, md);
        assert(md * (-q) + (-t) == -(y * inc)) by (nonlinear_arith) requires y * inc == md * q + t;
        assert((-(y * inc)) % md == (-t) % md);
        if t == 0 {
            lemma_small_mod(0, md as nat);
        } else {
            lemma_mod_multiples_vanish(1, -t, md);
            lemma_small_mod((md - t) as nat, md as nat);
            assert((-t) % md == md - t);
        }
        // (m + y*inc) % md == (m + t) % md
        lemma_mod_multiples_vanish(q, m + t, md);
        assert(md * q + (m + t) == m + y * inc);
        if m + t < md {
            lemma_small_mod((m + t) as nat, md as nat);
        } else {
            lemma_mod_multiples_vanish(-1, m + t, md);
            lemma_small_mod((m + t - md) as nat, md as nat);
        }
    }
}

// ------------------------------------------------------------------ geometric series (second consumer: loop_motion's closed form)
/// 1 + a + a^2 + ... + a^(n-1)
pub open spec fn geo(a: int, n: nat) -> int
    decreases n
{
    if n == 0 { 0 } else { 1 + a * geo(a, (n - 1) as nat) }
}

/// the n-fold iterate of x -> a*x + 1 composes: geo(p + r) = a^p * geo(r) + geo(p)
pub proof fn lemma_geo_add(a: int, p: nat, r: nat)
    ensures geo(a, p + r) == pow(a, p) * geo(a, r) + geo(a, p)
    decreases p
{
    reveal(pow);
    if p == 0 {
        assert(pow(a, 0) == 1);
        assert(geo(a, 0) == 0);
        assert(1 * geo(a, r) == geo(a, r));
    } else {
        let q = (p - 1) as nat;
        lemma_geo_add(a, q, r);
        assert(geo(a, p + r) == 1 + a * geo(a, q + r));
        assert(geo(a, p) == 1 + a * geo(a, q));
        assert(pow(a, p) == a * pow(a, q));
        let x = pow(a, q); let g = geo(a, r); let h = geo(a, q);
        assert(1 + a * (x * g + h) == (a * x) * g + (1 + a * h)) by (nonlinear_arith);
    }
}

/// ((x mod m) * (y mod m) mod m + (z mod m)) mod m == (x*y + z) mod m
pub proof fn lemma_affine_mod(x: int, y: int, z: int, m: int)
    requires m > 0
    ensures (((x % m) * (y % m)) % m + (z % m)) % m == (x * y + z) % m
{
    lemma_mul_mod_noop_general(x, y, m);
    lemma_add_mod_noop(x * y, z, m);
    lemma_mod_twice(z, m);
    lemma_add_mod_noop((x % m) * (y % m), z % m, m);
}

//@extract src/opt.rs :: fn wrapping_geometric_sum

//@extract src/opt.rs :: struct OptLoop
//@extract src/opt.rs :: struct OptRebuild { field shift, field sub_shift, field no_return }

//@extract src/opt.rs :: impl<C: CellType> OptLoop<C> { fn expr, fn no_return, fn infinite, fn at_most_once, fn unknown }
//@extract src/opt.rs :: impl<C: CellType> OptRebuild<'_, C> { boundary fn get_constant, boundary fn is_non_zero, boundary fn get, fn analyze_loop }

} // verus!
fn main() {}
