#@ Contract clauses for U10 `opt_loop` (consumer obligation of C14).
#@include ../u1_cell/splices.vs :: trait CellType @ open
#@include ../u1_cell/splices.vs :: trait CellType > fn wrapping_add @ d3 r
#@include ../u1_cell/splices.vs :: trait CellType > fn wrapping_add @ sig
#@include ../u1_cell/splices.vs :: trait CellType > fn wrapping_mul @ d3 r
#@include ../u1_cell/splices.vs :: trait CellType > fn wrapping_mul @ sig
#@include ../u1_cell/splices.vs :: trait CellType > fn wrapping_shr @ d3 r
#@include ../u1_cell/splices.vs :: trait CellType > fn wrapping_shr @ sig
#@include ../u1_cell/splices.vs :: trait CellType > fn is_odd @ d3 r
#@include ../u1_cell/splices.vs :: trait CellType > fn is_odd @ sig
#@include ../u1_cell/splices.vs :: trait CellType > fn wrapping_neg @ d3 r
#@include ../u1_cell/splices.vs :: trait CellType > fn wrapping_neg @ sig
#@include ../u1_cell/splices.vs :: trait CellType > fn wrapping_inv @ d3 r
#@include ../u1_cell/splices.vs :: trait CellType > fn wrapping_inv @ sig
#@include ../u1_cell/splices.vs :: trait CellType > fn wrapping_div @ d3 r
#@include ../u1_cell/splices.vs :: trait CellType > fn wrapping_div @ sig

@@ struct OptLoop @ before
#[verifier::reject_recursive_types(C)]
@@ struct OptLoop @ pub
@@ struct OptRebuild @ before
#[verifier::reject_recursive_types(C)]
@@ struct OptRebuild @ pub
@@ struct OptRebuild @ close
    pub _rest: PhantomData<&'a C>,

#@ ---------------------------------------------------------------- geometric sum (helper of loop_motion's closed form)
@@ fn wrapping_geometric_sum @ shape
while if
@@ fn wrapping_geometric_sum @ d1 count=count_0
@@ fn wrapping_geometric_sum @ d3 r
@@ fn wrapping_geometric_sum @ sig
        // the sum of the first `count` powers of `mul`, modulo 2^bits
        ensures r.v() as int == geo(mul.v() as int, count_0.v()) % m_of(C::bits())
@@ fn wrapping_geometric_sum @ loop 1 before
        let ghost a = mul.v() as int;
        let ghost m = m_of(C::bits());
        let ghost mut pp: nat = 1;    // 2^i: the exponent sq_mul / sq_add stand for
        let ghost mut rr: nat = 0;    // the low bits of count_0 already consumed
        proof {
            C::facts(); lemma_pow2_pos(C::bits());
            C::v_lt(mul);
            reveal(pow);
            assert(pow(a, 1) == a * pow(a, 0));
            assert(pow(a, 0) == 1);
            assert(geo(a, 1) == 1 + a * geo(a, 0));
            assert(geo(a, 0) == 0);
            lemma_small_mod(mul.v(), pow2(C::bits()));
            assert(pow2(C::bits()) > 1) by { lemma_pow2_strictly_increases(0, C::bits()); lemma2_to64(); }
            lemma_small_mod(1, pow2(C::bits()));
            lemma_small_mod(0, pow2(C::bits()));
            assert(count_0.v() * 1 == count_0.v());
        }
@@ fn wrapping_geometric_sum @ loop 1
        invariant
            m == m_of(C::bits()), m > 1, a == mul.v() as int, pp >= 1,
            sum.v() as int == geo(a, rr) % m,
            sq_mul.v() as int == pow(a, pp) % m,
            sq_add.v() as int == geo(a, pp) % m,
            count_0.v() == count.v() * pp + rr,
        decreases count.v()
@@ fn wrapping_geometric_sum @ loop 1 body_start
            let ghost c0 = count.v();
            let ghost s0 = sum.v() as int;
            let ghost p0 = pp;
            let ghost r0 = rr;
            proof {
                C::facts(); lemma2_to64(); C::eq_facts(count, C::ZERO);
                assert(c0 != 0);
                lemma_div_decreases(c0 as int, 2);
            }
@@ fn wrapping_geometric_sum @ if 1 then_tail
                proof {
                    // sum' = (sq_mul * sum + sq_add) mod m  ==  (a^p * geo(r) + geo(p)) mod m == geo(p + r) mod m
                    lemma_affine_mod(pow(a, p0), geo(a, r0), geo(a, p0), m);
                    lemma_geo_add(a, p0, r0);
                    rr = p0 + r0;
                }
@@ fn wrapping_geometric_sum @ loop 1 body_end
            proof {
                // sq_add' == geo(2p), sq_mul' == a^(2p)
                lemma_affine_mod(pow(a, p0), geo(a, p0), geo(a, p0), m);
                lemma_geo_add(a, p0, p0);
                lemma_mul_mod_noop_general(pow(a, p0), pow(a, p0), m);
                lemma_pow_adds(a, p0, p0);
                pp = p0 + p0;
                assert(pow2(1) == 2) by { lemma2_to64(); }
                assert(count.v() == c0 / 2);
                assert(c0 == 2 * (c0 / 2) + c0 % 2) by { lemma_fundamental_div_mod(c0 as int, 2); }
                assert(count_0.v() == count.v() * pp + rr) by (nonlinear_arith)
                    requires count_0.v() == c0 * p0 + r0, pp == p0 + p0, c0 == 2 * count.v() + c0 % 2,
                             (c0 % 2 == 1 ==> rr == p0 + r0), (c0 % 2 == 0 ==> rr == r0), c0 % 2 == 0 || c0 % 2 == 1;
            }
@@ fn wrapping_geometric_sum @ loop 1 after
        proof {
            C::eq_facts(count, C::ZERO); C::facts();
            assert(count.v() * pp == 0) by (nonlinear_arith) requires count.v() == 0;
        }

#@ ---------------------------------------------------------------- OptLoop constructors
@@ impl<C: CellType> OptLoop<C> > fn expr @ d3 r
@@ impl<C: CellType> OptLoop<C> > fn expr @ sig
        // "runs exactly as often as `expr` evaluated before the loop"
        ensures r.finite, r.expr == Some(expr),
                r.never == (expr.s_constant().is_some() && expr.s_constant().unwrap().v() == 0),
                r.at_most_once == (expr.s_constant().is_some() && expr.s_constant().unwrap().v() <= 1),
@@ impl<C: CellType> OptLoop<C> > fn expr @ body_start
        proof { C::facts(); C::eq_all(); }
@@ impl<C: CellType> OptLoop<C> > fn no_return @ d3 r
@@ impl<C: CellType> OptLoop<C> > fn no_return @ sig
        ensures r.finite, !r.never, r.no_effect, r.at_most_once, r.at_least_once == at_least_once
@@ impl<C: CellType> OptLoop<C> > fn infinite @ d3 r
@@ impl<C: CellType> OptLoop<C> > fn infinite @ sig
        // the infinite class: never finishes once entered, and is reported as such
        ensures !r.finite, r.no_effect, r.expr.is_none(), !r.never, !r.at_most_once, r.at_least_once == at_least_once
@@ impl<C: CellType> OptLoop<C> > fn at_most_once @ d3 r
@@ impl<C: CellType> OptLoop<C> > fn at_most_once @ sig
        ensures r.finite, r.at_most_once, !r.never
@@ impl<C: CellType> OptLoop<C> > fn at_most_once @ body_start
        proof { C::facts(); C::eq_all(); }
@@ impl<C: CellType> OptLoop<C> > fn unknown @ d3 r
@@ impl<C: CellType> OptLoop<C> > fn unknown @ sig
        // the conservative answer: nothing is claimed
        ensures !r.finite, !r.no_effect, r.expr.is_none(), !r.never, !r.at_most_once

#@ ---------------------------------------------------------------- the analysis
@@ impl<C: CellType> OptRebuild<'_, C> @ open
    /// what the analysis state knows (uninterpreted here): constant value of a cell, cell known to
    /// be non-zero, symbolic value of a cell after the loop body
    pub uninterp spec fn s_constant(&self, var: isize) -> Option<C>;
    pub uninterp spec fn s_non_zero(&self, var: isize) -> bool;
    pub uninterp spec fn s_get(&self, var: isize) -> Option<Expr<C>>;
@@ impl<C: CellType> OptRebuild<'_, C> > fn get_constant @ d3 r
@@ impl<C: CellType> OptRebuild<'_, C> > fn get_constant @ sig
        ensures r == self.s_constant(var)
@@ impl<C: CellType> OptRebuild<'_, C> > fn is_non_zero @ d3 r
@@ impl<C: CellType> OptRebuild<'_, C> > fn is_non_zero @ sig
        ensures r == self.s_non_zero(var)
@@ impl<C: CellType> OptRebuild<'_, C> > fn get @ d3 r
@@ impl<C: CellType> OptRebuild<'_, C> > fn get @ sig
        ensures r == self.s_get(var)

@@ impl<C: CellType> OptRebuild<'_, C> > fn analyze_loop @ shape
if else if else if else if if else else if else if if if if else else if else if else else if else else
@@ impl<C: CellType> OptRebuild<'_, C> > fn analyze_loop @ d3 r
@@ impl<C: CellType> OptRebuild<'_, C> > fn analyze_loop @ sig
        requires
            // cell offsets far from the isize limits (the sum below would overflow otherwise)
            -0x1000_0000_0000_0000 < cond < 0x1000_0000_0000_0000,
            -0x1000_0000_0000_0000 < self.shift < 0x1000_0000_0000_0000,
            -0x1000_0000_0000_0000 < sub.shift < 0x1000_0000_0000_0000,
        ensures
            // a loop whose condition cell is known to be zero never runs -- and only then (the one
            // result built with the unverified Expr::mul is excluded from the "only then" direction)
            (self.s_constant(cond).is_some() && self.s_constant(cond).unwrap().v() == 0) ==> r.never,
            (r.never && (self.s_constant(cond).is_some() || r.expr.is_none())) ==> (self.s_constant(cond).is_some() && self.s_constant(cond).unwrap().v() == 0),
            // TRIP COUNT.  When the loop body is known to add the constant `inc` to the condition cell
            // (its value after the body is `[cond] + inc`), the initial value is the known constant m != 0,
            // and nothing else intervenes (no early exit, no pointer drift, no constant overwrite):
            ({
                let c2 = (cond + sub.shift - self.shift) as isize;
                let md = m_of(C::bits());
                (self.s_constant(cond).is_some() && self.s_constant(cond).unwrap().v() != 0
                    && !sub.no_return && is_loop && sub.s_constant(c2).is_none() && !sub.sub_shift
                    && sub.s_get(c2).is_some() && sub.s_get(c2).unwrap().s_const_inc_of(cond).is_some())
                ==> {
                    let m = self.s_constant(cond).unwrap().v() as int;
                    let inc = sub.s_get(c2).unwrap().s_const_inc_of(cond).unwrap().v() as int;
                    match r.expr {
                        // the reported count is the LEAST k with m + k*inc == 0 (mod 2^bits) ...
                        Some(e) => r.finite && exists|n: nat| is_const(&e, n as int) && #[trigger] least_trip(n, m, inc, md),
                        // ... and "infinite" is reported only when no k exists
                        None => !r.finite && r.no_effect && no_trip(m, inc, md),
                    }
                }
            }),
            // unknown initial value: the reported count x satisfies x * (-inc) == [cond] (mod 2^bits)
            ({
                let c2 = (cond + sub.shift - self.shift) as isize;
                let md = m_of(C::bits());
                (self.s_constant(cond).is_none() && !sub.no_return && is_loop && sub.s_constant(c2).is_none() && !sub.sub_shift
                    && sub.s_get(c2).is_some() && sub.s_get(c2).unwrap().s_const_inc_of(cond).is_some() && r.expr.is_some())
                ==> {
                    let inc = sub.s_get(c2).unwrap().s_const_inc_of(cond).unwrap().v() as int;
                    r.finite && forall|rho: spec_fn(isize) -> nat|
                        ((#[trigger] eval(&r.expr.unwrap(), rho)) * ((md - inc) % md)) % md == (rho(cond) as int) % md
                }
            }),
            #@canary r.finite && !r.finite,
@@ impl<C: CellType> OptRebuild<'_, C> > fn analyze_loop @ body_start
        proof { C::facts(); C::eq_all(); lemma_pow2_pos(C::bits()); }
@@ impl<C: CellType> OptRebuild<'_, C> > fn analyze_loop @ if 10 then_start
                        proof {
                            // wrapping_div(m, -inc) == Some(n): n is the least solution of n * (-inc) == m,
                            // i.e. the least k with m + k*inc == 0
                            let md = m_of(C::bits());
                            let (mv, iv, nv) = (m.v() as int, inc.v() as int, n.v() as int);
                            C::v_lt(m); C::v_lt(inc); C::v_lt(n);
                            let d = (md - iv) % md;   // value of inc.wrapping_neg()
                            lemma_neg_solution(nv, iv, mv, md);
                            assert((mv + nv * iv) % md == 0);
                            assert forall|k: nat| k < n.v() implies (mv + #[trigger] (k * iv)) % md != 0 by {
                                lemma_neg_solution(k as int, iv, mv, md);
                                if (mv + k * iv) % md == 0 {
                                    assert(((k as int) * d) % md == mv);
                                    assert(k >= nv);
                                }
                            }
                            assert(least_trip(n.v(), mv, iv, md));
                            // m != 0 ==> n != 0
                            if nv == 0 {
                                assert(0 * iv == 0);
                                lemma_small_mod(mv as nat, md as nat);
                                assert(false);
                            }
                        }
@@ impl<C: CellType> OptRebuild<'_, C> > fn analyze_loop @ if 10 else_start
                        proof {
                            // wrapping_div(m, -inc) == None: no solution exists
                            let md = m_of(C::bits());
                            let (mv, iv) = (m.v() as int, inc.v() as int);
                            C::v_lt(m); C::v_lt(inc);
                            let d = (md - iv) % md;   // value of inc.wrapping_neg()
                            assert forall|k: nat| (mv + #[trigger] (k * iv)) % md != 0 by {
                                lemma_neg_solution(k as int, iv, mv, md);
                                if (mv + k * iv) % md == 0 {
                                    assert(((k as int) * d) % md == mv);
                                }
                            }
                            assert(no_trip(mv, iv, md));
                        }
@@ impl<C: CellType> OptRebuild<'_, C> > fn analyze_loop @ if 11 then_start
                    proof {
                        // inv * (-inc) == 1 (mod 2^bits): for the count x = inv * [cond] this gives
                        // x * (-inc) == [cond]
                        let md = m_of(C::bits());
                        let iv = inc.v() as int;
                        let d = (md - iv) % md;   // value of inc.wrapping_neg()
                        C::v_lt(inc); C::v_lt(inv);
                        assert forall|x: int, rv: int| #![trigger ((x % md) * d) % md, (inv.v() as int * (rv % md)) % md]
                            x % md == (inv.v() as int * (rv % md)) % md implies ((x % md) * d) % md == rv % md by {
                            let a = inv.v() as int;
                            let r0 = rv % md;
                            lemma_mod_bound(rv, md);
                            // ((a*r0) % md * d) % md == (a*r0*d) % md == (r0 * (a*d)) % md == (r0 * 1) % md
                            lemma_mul_mod_noop_left(a * r0, d, md);
                            assert((a * r0) * d == r0 * (a * d)) by (nonlinear_arith);
                            lemma_mul_mod_noop_right(r0, a * d, md);
                            assert(r0 * 1 == r0);
                            lemma_small_mod(r0 as nat, md as nat);
                        }
                    }
