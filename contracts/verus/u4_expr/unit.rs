// U4 `expr_core` -- Verus unit for property C15 (the reachable fragment of ir::Expr).
// DESIGN.md section 4-U4.  The Expr / ExprPart structs and the listed Expr methods are cut out of
// /repo/src/ir.rs on every run; contract clauses come from splices.vs.
use vstd::prelude::*;
use vstd::arithmetic::power2::*;
use vstd::arithmetic::div_mod::*;
use vstd::arithmetic::mul::*;
use vstd::std_specs::cmp::PartialEqSpec;
use std::ops::{Deref, DerefMut};
use std::cmp::Ordering;
use std::{fmt::Debug, hash::Hash};
verus! {

pub open spec fn m_of(bits: nat) -> int { pow2(bits) as int }

// ------------------------------------------------------------------ boundary: CellType (contracts proved in unit u1_cell)
//@extract src/lib.rs :: trait CellType { const BITS, const ZERO, const ONE, const NEG_ONE, fn wrapping_add, fn wrapping_mul, fn wrapping_neg, fn wrapping_shr, boundary fn is_odd }

// ---- boundary: SmallVec stands for a Vec (refinement is C18 / U3). Methods below are Verus-checked.
pub struct SmallVec<T, const N: usize> { pub v: Vec<T> }
impl<T, const N: usize> View for SmallVec<T, N> {
    type V = Seq<T>;
    closed spec fn view(&self) -> Seq<T> { self.v@ }
}
impl<T, const N: usize> SmallVec<T, N> {
    pub fn new() -> (r: Self) ensures r@ == Seq::<T>::empty() { SmallVec { v: Vec::new() } }
    pub fn with(elem: T) -> (r: Self) ensures r@ == seq![elem] { let mut v = Vec::new(); v.push(elem); SmallVec { v } }
    pub fn push(&mut self, e: T) ensures final(self)@ == old(self)@.push(e) { self.v.push(e) }
    pub fn with_capacity(size: usize) -> (r: Self) ensures r@ == Seq::<T>::empty() { SmallVec { v: Vec::new() } }
}
impl<const N: usize> SmallVec<isize, N> {
    /// `<[isize]>::contains` (reached through Deref in the real code)
    pub fn contains(&self, x: &isize) -> (r: bool)
        ensures r == self@.contains(*x)
    {
        let mut i: usize = 0;
        while i < self.v.len()
            invariant i <= self.v@.len(), forall|k: int| 0 <= k < i ==> self.v@[k] != *x
            decreases self.v@.len() - i
        {
            if self.v[i] == *x { return true; }
            i += 1;
        }
        false
    }
}
impl<T: Clone, const N: usize> Clone for SmallVec<T, N> {
    fn clone(&self) -> (r: Self)
        ensures r@.len() == self@.len(), forall|i: int| 0 <= i < self@.len() ==> cloned::<T>(#[trigger] self@[i], r@[i])
    {
        SmallVec { v: self.v.clone() }
    }
}
impl<T: Ord, const N: usize> SmallVec<T, N> {
    pub fn cmp(&self, other: &Self) -> (r: Ordering)
        ensures r == Ordering::Equal ==> self@ == other@
    { self.cmp_ext(other) }
    #[verifier::external_body]
    fn cmp_ext(&self, other: &Self) -> (r: Ordering)
        ensures r == Ordering::Equal ==> self@ == other@
    { self.v.as_slice().cmp(other.v.as_slice()) }
}
impl<T, const N: usize> Deref for SmallVec<T, N> {
    type Target = [T];
    fn deref(&self) -> (r: &[T]) ensures r@ == self@ { self.v.as_slice() }
}


impl<T, const N: usize> DerefMut for SmallVec<T, N> {
    fn deref_mut(&mut self) -> (r: &mut [T]) ensures r@ == old(self)@, final(self)@ == final(r)@ { self.v.as_mut_slice() }
}

impl<T, const N: usize> SmallVec<T, N> {
    pub fn len(&self) -> (r: usize) ensures r == self@.len() { self.v.len() }
    pub fn is_empty(&self) -> (r: bool) ensures r == (self@.len() == 0) { self.v.len() == 0 }
}

//@extract src/ir.rs :: struct ExprPart
//@extract src/ir.rs :: struct Expr

// D9: field-wise expansion of `#[derive(Clone)]` on ExprPart, carrying its contract
impl<C: CellType> Clone for ExprPart<C> {
    fn clone(&self) -> (r: Self)
        ensures r.coef == self.coef, r.vars@ == self.vars@
    {
        let vars = self.vars.clone();
        proof { assert(vars@ =~= self.vars@); }
        ExprPart { coef: self.coef, vars }
    }
}

// D9: field-wise expansion of `#[derive(Clone)]` on Expr
impl<C: CellType> Clone for Expr<C> {
    fn clone(&self) -> (r: Self)
        ensures r.parts@.len() == self.parts@.len(),
                forall|i: int| 0 <= i < self.parts@.len() ==> (#[trigger] r.parts@[i]).coef == self.parts@[i].coef && r.parts@[i].vars@ == self.parts@[i].vars@
    {
        let parts = self.parts.clone();
        Expr { parts }
    }
}

// ---- spec: value of an expression under an assignment
pub open spec fn prod_vars(vars: Seq<isize>, rho: spec_fn(isize) -> nat) -> nat
    decreases vars.len()
{
    if vars.len() == 0 { 1 } else { prod_vars(vars.drop_last(), rho) * rho(vars.last()) }
}

pub open spec fn pval<C: CellType>(p: ExprPart<C>, rho: spec_fn(isize) -> nat) -> nat {
    p.coef.v() * prod_vars(p.vars@, rho)
}

pub open spec fn sum_parts<C: CellType>(ps: Seq<ExprPart<C>>, rho: spec_fn(isize) -> nat) -> nat
    decreases ps.len()
{
    if ps.len() == 0 { 0 } else { sum_parts(ps.drop_last(), rho) + pval(ps.last(), rho) }
}

pub open spec fn eval<C: CellType>(e: &Expr<C>, rho: spec_fn(isize) -> nat) -> int {
    (sum_parts(e.parts@, rho) as int) % (pow2(C::bits()) as int)
}

proof fn lemma_sum_push<C: CellType>(ps: Seq<ExprPart<C>>, p: ExprPart<C>, rho: spec_fn(isize) -> nat)
    ensures sum_parts(ps.push(p), rho) == sum_parts(ps, rho) + pval(p, rho)
{
    assert(ps.push(p).drop_last() =~= ps);
    assert(ps.push(p).last() == p);
}

proof fn lemma_sum_empty<C: CellType>(rho: spec_fn(isize) -> nat)
    ensures sum_parts(Seq::<ExprPart<C>>::empty(), rho) == 0
{}

proof fn lemma_prod_push(vs: Seq<isize>, x: isize, rho: spec_fn(isize) -> nat)
    ensures prod_vars(vs.push(x), rho) == prod_vars(vs, rho) * rho(x)
{
    assert(vs.push(x).drop_last() =~= vs);
    assert(vs.push(x).last() == x);
}


/// structural recogniser of constant expressions (what `Expr::constant` computes); unit
/// u10_optloop uses its uninterpreted twin `s_constant`
pub open spec fn spec_constant<C: CellType>(e: &Expr<C>) -> Option<C> {
    if e.parts@.len() == 0 {
        Some(C::ZERO)
    } else if e.parts@.len() == 1 && e.parts@[0].vars@.len() == 0 {
        Some(e.parts@[0].coef)
    } else {
        None
    }
}

/// the same, over the mathematical integers of the ring (what the property calls "the value")
pub open spec fn eval_nat<C: CellType>(e: &Expr<C>, rho: spec_fn(isize) -> nat) -> nat {
    (eval(e, rho)) as nat
}

proof fn lemma_sum_single<C: CellType>(p: ExprPart<C>, rho: spec_fn(isize) -> nat)
    ensures sum_parts(seq![p], rho) == pval(p, rho)
{
    assert(seq![p] =~= Seq::<ExprPart<C>>::empty().push(p));
    lemma_sum_push(Seq::<ExprPart<C>>::empty(), p, rho);
}

proof fn lemma_prod_zero(vs: Seq<isize>, zero: spec_fn(isize) -> nat)
    requires vs.len() > 0, forall|x: isize| #[trigger] zero(x) == 0
    ensures prod_vars(vs, zero) == 0
{
    assert(prod_vars(vs.drop_last(), zero) * zero(vs.last()) == 0) by (nonlinear_arith) requires zero(vs.last()) == 0;
}

/// every part after the first has at least one variable ==> only the first part can contribute
/// at the all-zero assignment
proof fn lemma_sum_zero_tail<C: CellType>(ps: Seq<ExprPart<C>>, zero: spec_fn(isize) -> nat)
    requires forall|x: isize| #[trigger] zero(x) == 0,
             forall|k: int| 1 <= k < ps.len() ==> (#[trigger] ps[k]).vars@.len() > 0
    ensures sum_parts(ps, zero) == (if ps.len() == 0 { 0 } else { pval(ps[0], zero) })
    decreases ps.len()
{
    if ps.len() <= 1 {
        if ps.len() == 1 {
            assert(ps =~= seq![ps[0]]);
            lemma_sum_single(ps[0], zero);
        }
    } else {
        let init = ps.drop_last();
        assert forall|k: int| 1 <= k < init.len() implies (#[trigger] init[k]).vars@.len() > 0 by { assert(init[k] == ps[k]); }
        lemma_sum_zero_tail(init, zero);
        let last = ps.last();
        assert(last == ps[ps.len() - 1]);
        lemma_prod_zero(last.vars@, zero);
        assert(last.coef.v() * 0 == 0);
        assert(init[0] == ps[0]);
    }
}

proof fn lemma_prod_single(x: isize, rho: spec_fn(isize) -> nat)
    ensures prod_vars(seq![x], rho) == rho(x), prod_vars(Seq::<isize>::empty(), rho) == 1
{
    assert(seq![x] =~= Seq::<isize>::empty().push(x));
    lemma_prod_push(Seq::<isize>::empty(), x, rho);
    assert(prod_vars(Seq::<isize>::empty(), rho) == 1);
    assert(1 * rho(x) == rho(x));
}

proof fn lemma_add_cong(a: int, a2: int, b: int, m: int)
    requires m > 0, a % m == a2 % m
    ensures (a + b) % m == (a2 + b) % m
{
    lemma_add_mod_noop(a, b, m);
    lemma_add_mod_noop(a2, b, m);
}

proof fn lemma_sum_skip<C: CellType>(s: Seq<ExprPart<C>>, i: int, rho: spec_fn(isize) -> nat)
    requires 0 <= i < s.len()
    ensures sum_parts(s.skip(i), rho) == pval(s[i], rho) + sum_parts(s.skip(i + 1), rho)
    decreases s.len() - i
{
    let t = s.skip(i);
    if t.len() == 1 {
        assert(t.drop_last() =~= Seq::<ExprPart<C>>::empty());
        assert(s.skip(i + 1) =~= Seq::<ExprPart<C>>::empty());
        assert(t.last() == s[i]);
    } else {
        // peel the last element on both sides
        let u = s.drop_last();
        assert(t.drop_last() =~= u.skip(i));
        assert(s.skip(i + 1).drop_last() =~= u.skip(i + 1));
        assert(t.last() == s.last());
        assert(s.skip(i + 1).last() == s.last());
        lemma_sum_skip(u, i, rho);
        assert(u[i] == s[i]);
    }
}


/// part-wise negated coefficients: the two sums cancel modulo m
proof fn lemma_sum_neg<C: CellType>(ps: Seq<ExprPart<C>>, qs: Seq<ExprPart<C>>, rho: spec_fn(isize) -> nat, m: int)
    requires m > 0, ps.len() == qs.len(),
             forall|k: int| 0 <= k < ps.len() ==> (#[trigger] qs[k]).vars@ == ps[k].vars@
                 && qs[k].coef.v() as int == (m - ps[k].coef.v()) % m && ps[k].coef.v() < m,
    ensures (sum_parts(qs, rho) + sum_parts(ps, rho)) as int % m == 0
    decreases ps.len()
{
    if ps.len() == 0 {
        lemma_small_mod(0, m as nat);
    } else {
        let p = ps.last(); let q = qs.last();
        assert(q == qs[ps.len() - 1] && p == ps[ps.len() - 1]);
        let pi = ps.drop_last(); let qi = qs.drop_last();
        assert forall|k: int| 0 <= k < pi.len() implies (#[trigger] qi[k]).vars@ == pi[k].vars@
            && qi[k].coef.v() as int == (m - pi[k].coef.v()) % m && pi[k].coef.v() < m by { assert(qi[k] == qs[k] && pi[k] == ps[k]); }
        lemma_sum_neg(pi, qi, rho, m);
        let pc = p.coef.v() as int; let qc = q.coef.v() as int;
        let x = prod_vars(p.vars@, rho) as int;
        if pc == 0 { lemma_mod_self_0(m); assert(qc == 0); } else { lemma_small_mod((m - pc) as nat, m as nat); assert(qc == m - pc); }
        let t = if pc == 0 { 0int } else { 1int };
        assert(qc + pc == t * m);
        assert((pval(q, rho) + pval(p, rho)) as int == m * (t * x)) by (nonlinear_arith)
            requires pval(q, rho) as int == qc * x, pval(p, rho) as int == pc * x, qc + pc == t * m;
        let rest = (sum_parts(qi, rho) + sum_parts(pi, rho)) as int;
        lemma_mod_multiples_vanish(t * x, rest, m);
        assert((sum_parts(qs, rho) + sum_parts(ps, rho)) as int == m * (t * x) + rest);
    }
}

/// the part is exactly the single variable `var` (with any coefficient)
pub open spec fn single<C: CellType>(p: ExprPart<C>, var: isize) -> bool {
    p.vars@.len() == 1 && p.vars@[0] == var
}

/// like terms are collected: at most one part is the plain variable `var`
pub open spec fn one_single<C: CellType>(ps: Seq<ExprPart<C>>, var: isize) -> bool {
    forall|i: int, j: int| 0 <= i < j < ps.len() ==> !(single(#[trigger] ps[i], var) && single(#[trigger] ps[j], var))
}

/// part-wise halved (even) coefficients: twice the sum is the original sum
proof fn lemma_sum_half<C: CellType>(ps: Seq<ExprPart<C>>, hs: Seq<ExprPart<C>>, rho: spec_fn(isize) -> nat)
    requires ps.len() == hs.len(),
             forall|k: int| 0 <= k < ps.len() ==> (#[trigger] hs[k]).vars@ == ps[k].vars@
                 && 2 * hs[k].coef.v() == ps[k].coef.v(),
    ensures 2 * sum_parts(hs, rho) == sum_parts(ps, rho)
    decreases ps.len()
{
    if ps.len() > 0 {
        let p = ps.last(); let h = hs.last();
        assert(h == hs[ps.len() - 1] && p == ps[ps.len() - 1]);
        let pi = ps.drop_last(); let hi = hs.drop_last();
        assert forall|k: int| 0 <= k < pi.len() implies (#[trigger] hi[k]).vars@ == pi[k].vars@
            && 2 * hi[k].coef.v() == pi[k].coef.v() by { assert(hi[k] == hs[k] && pi[k] == ps[k]); }
        lemma_sum_half(pi, hi, rho);
        let x = prod_vars(p.vars@, rho);
        assert(2 * (h.coef.v() * x) == p.coef.v() * x) by (nonlinear_arith) requires 2 * h.coef.v() == p.coef.v();
    }
}

/// (a + b) mod m == 0  ==>  a mod m == (m - b mod m) mod m
proof fn lemma_neg_mod(a: int, b: int, m: int)
    requires m > 0, a >= 0, b >= 0, (a + b) % m == 0
    ensures a % m == (m - b % m) % m
{
    let ra = a % m; let rb = b % m;
    lemma_mod_bound(a, m); lemma_mod_bound(b, m);
    lemma_add_mod_noop(a, b, m);
    assert((ra + rb) % m == 0);
    if ra + rb == 0 {
        lemma_mod_self_0(m);
    } else if ra + rb < m {
        lemma_small_mod((ra + rb) as nat, m as nat);
        assert(false);
    } else {
        lemma_mod_multiples_vanish(-1, ra + rb, m);
        lemma_small_mod((ra + rb - m) as nat, m as nat);
        assert(ra + rb == m);
        lemma_small_mod(ra as nat, m as nat);
    }
}

//@extract src/ir.rs :: impl<C: CellType> Expr<C> { fn val, fn var, fn add_count, fn is_zero, fn add, fn neg, fn half, fn inc_of, fn prod_inc_of, fn constant, fn const_inc_of, fn constant_part, fn identity, fn evaluate }

} // verus!
fn main() {}
