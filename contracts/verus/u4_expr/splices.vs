#@ Contract clauses for U4 `expr_core` (C15, the fragment of ir::Expr both verifiers can reach).
#@ eval(e, rho) = (sum over parts of coef * product of rho(var)) mod 2^bits.

#@include ../u1_cell/splices.vs :: trait CellType @ open
#@include ../u1_cell/splices.vs :: trait CellType > fn wrapping_add @ d3 r
#@include ../u1_cell/splices.vs :: trait CellType > fn wrapping_add @ sig
#@include ../u1_cell/splices.vs :: trait CellType > fn wrapping_mul @ d3 r
#@include ../u1_cell/splices.vs :: trait CellType > fn wrapping_mul @ sig
#@include ../u1_cell/splices.vs :: trait CellType > fn wrapping_neg @ d3 r
#@include ../u1_cell/splices.vs :: trait CellType > fn wrapping_neg @ sig
#@include ../u1_cell/splices.vs :: trait CellType > fn wrapping_shr @ d3 r
#@include ../u1_cell/splices.vs :: trait CellType > fn wrapping_shr @ sig
#@include ../u1_cell/splices.vs :: trait CellType > fn is_odd @ d3 r
#@include ../u1_cell/splices.vs :: trait CellType > fn is_odd @ sig

@@ struct ExprPart @ before
#[verifier::reject_recursive_types(C)]
@@ struct ExprPart @ pub
@@ struct Expr @ before
#[verifier::reject_recursive_types(C)]
@@ struct Expr @ pub

#@ ---------------------------------------------------------------- val / var
@@ impl<C: CellType> Expr<C> > fn val @ shape
if else
@@ impl<C: CellType> Expr<C> > fn val @ d3 r
@@ impl<C: CellType> Expr<C> > fn val @ sig
        ensures forall|rho: spec_fn(isize) -> nat| #[trigger] eval(&r, rho) == coef.v(),
                // a constant is recognised as a constant (used by unit u10_optloop)
                spec_constant(&r).is_some() && spec_constant(&r).unwrap().v() == coef.v(),
@@ impl<C: CellType> Expr<C> > fn val @ body_start
        proof {
            C::eq_all(); C::facts(); C::v_lt(coef); lemma_pow2_pos(C::bits());
            lemma_small_mod(0, pow2(C::bits()));
            lemma_small_mod(coef.v(), pow2(C::bits()));
            assert forall|p: ExprPart<C>, rho: spec_fn(isize) -> nat| #[trigger] sum_parts(seq![p], rho) == pval(p, rho) by {
                lemma_sum_single(p, rho);
            }
            assert forall|rho: spec_fn(isize) -> nat| #[trigger] prod_vars(Seq::<isize>::empty(), rho) == 1 by { }
            assert(coef.v() * 1 == coef.v());
        }

@@ impl<C: CellType> Expr<C> > fn var @ shape

@@ impl<C: CellType> Expr<C> > fn var @ d3 r
@@ impl<C: CellType> Expr<C> > fn var @ sig
        ensures forall|rho: spec_fn(isize) -> nat| #[trigger] eval(&r, rho) == rho(var) as int % m_of(C::bits()),
                spec_constant(&r).is_none(),
@@ impl<C: CellType> Expr<C> > fn var @ body_start
        proof {
            C::facts(); lemma_pow2_pos(C::bits());
            assert forall|p: ExprPart<C>, rho: spec_fn(isize) -> nat| #[trigger] sum_parts(seq![p], rho) == pval(p, rho) by {
                lemma_sum_single(p, rho);
            }
            assert forall|rho: spec_fn(isize) -> nat| #[trigger] prod_vars(seq![var], rho) == rho(var) && 1 * rho(var) == rho(var) by {
                lemma_prod_single(var, rho);
            }
        }

#@ ---------------------------------------------------------------- neg
@@ impl<C: CellType> Expr<C> > fn neg @ shape
for
@@ impl<C: CellType> Expr<C> > fn neg @ d12
@@ impl<C: CellType> Expr<C> > fn neg @ d3 r
@@ impl<C: CellType> Expr<C> > fn neg @ sig
        // "the value of a negation equals the negation of the value (mod 2^width)"
        ensures forall|rho: spec_fn(isize) -> nat| #[trigger] eval(&r, rho) == (m_of(C::bits()) - eval(self, rho)) % m_of(C::bits())
@@ impl<C: CellType> Expr<C> > fn neg @ loop 1
            invariant
                res.parts@.len() == self.parts@.len(), it1 <= res.parts@.len(),
                forall|k: int| 0 <= k < it1 ==> (#[trigger] res.parts@[k]).vars@ == self.parts@[k].vars@
                    && res.parts@[k].coef.v() as int == (m_of(C::bits()) - self.parts@[k].coef.v()) % m_of(C::bits()),
                forall|k: int| it1 <= k < res.parts@.len() ==> (#[trigger] res.parts@[k]).vars@ == self.parts@[k].vars@
                    && res.parts@[k].coef == self.parts@[k].coef,
            decreases res.parts@.len() - it1
@@ impl<C: CellType> Expr<C> > fn neg @ loop 1 after
        proof {
            let m = m_of(C::bits());
            C::facts(); lemma_pow2_pos(C::bits());
            assert forall|k: int| 0 <= k < self.parts@.len() implies (#[trigger] self.parts@[k]).coef.v() < m by { C::v_lt(self.parts@[k].coef); }
            assert forall|rho: spec_fn(isize) -> nat| #[trigger] eval(&res, rho) == (m - eval(self, rho)) % m by {
                lemma_sum_neg(self.parts@, res.parts@, rho, m);
                lemma_neg_mod(sum_parts(res.parts@, rho) as int, sum_parts(self.parts@, rho) as int, m);
            }
        }

#@ ---------------------------------------------------------------- half
@@ impl<C: CellType> Expr<C> > fn half @ shape
if for else
@@ impl<C: CellType> Expr<C> > fn half @ d11 1
            invariant d11_1_i <= self.parts@.len(),
                d11_1 == (forall|k: int| 0 <= k < d11_1_i ==> (#[trigger] self.parts@[k]).coef.v() % 2 == 0),
            decreases self.parts@.len() - d11_1_i
@@ impl<C: CellType> Expr<C> > fn half @ d12
@@ impl<C: CellType> Expr<C> > fn half @ d3 r
@@ impl<C: CellType> Expr<C> > fn half @ sig
        // "the value of a halving result, doubled, equals the value (mod 2^width)"; None only when
        // some coefficient is odd
        ensures
            r.is_some() ==> forall|rho: spec_fn(isize) -> nat| #[trigger] eval(self, rho) == (2 * eval(&r.unwrap(), rho)) % m_of(C::bits()),
            r.is_none() ==> exists|k: int| 0 <= k < self.parts@.len() && (#[trigger] self.parts@[k]).coef.v() % 2 == 1,
@@ impl<C: CellType> Expr<C> > fn half @ loop 1
                invariant
                    res.parts@.len() == self.parts@.len(), it1 <= res.parts@.len(),
                    forall|k: int| 0 <= k < self.parts@.len() ==> (#[trigger] self.parts@[k]).coef.v() % 2 == 0,
                    forall|k: int| 0 <= k < it1 ==> (#[trigger] res.parts@[k]).vars@ == self.parts@[k].vars@
                        && 2 * res.parts@[k].coef.v() == self.parts@[k].coef.v(),
                    forall|k: int| it1 <= k < res.parts@.len() ==> (#[trigger] res.parts@[k]).vars@ == self.parts@[k].vars@
                        && res.parts@[k].coef == self.parts@[k].coef,
                decreases res.parts@.len() - it1
@@ impl<C: CellType> Expr<C> > fn half @ loop 1 body_end
                proof {
                    C::facts(); lemma2_to64();
                    assert(pow2(1) == 2);
                }
@@ impl<C: CellType> Expr<C> > fn half @ loop 1 after
            proof {
                let m = m_of(C::bits());
                C::facts(); lemma_pow2_pos(C::bits());
                assert forall|rho: spec_fn(isize) -> nat| #[trigger] eval(self, rho) == (2 * eval(&res, rho)) % m by {
                    lemma_sum_half(self.parts@, res.parts@, rho);
                    lemma_mul_mod_noop_right(2, sum_parts(res.parts@, rho) as int, m);
                }
            }

#@ ---------------------------------------------------------------- prod_inc_of / inc_of
@@ impl<C: CellType> Expr<C> > fn prod_inc_of @ shape
if for if else else
@@ impl<C: CellType> Expr<C> > fn prod_inc_of @ d11 1
            invariant d11_1_i <= self.parts@.len(),
                d11_1 == (forall|k: int| 0 <= k < d11_1_i ==> !(#[trigger] self.parts@[k]).vars@.contains(var) || self.parts@[k].vars@.len() == 1),
            decreases self.parts@.len() - d11_1_i
@@ impl<C: CellType> Expr<C> > fn prod_inc_of @ d6
@@ impl<C: CellType> Expr<C> > fn prod_inc_of @ d3 r
@@ impl<C: CellType> Expr<C> > fn prod_inc_of @ sig
        // "multiple-of decomposition recomposes to the original value":  value == mul * [var] + rest,
        // and `rest` no longer mentions `var`.  GIVEN that like terms are collected (at most one
        // part is the plain variable).
        requires one_single(self.parts@, var)
        ensures r.is_some() ==> (forall|rho: spec_fn(isize) -> nat|
                    #[trigger] eval(self, rho) == (r.unwrap().1.v() * rho(var) + eval(&r.unwrap().0, rho)) % m_of(C::bits()))
                && (forall|k: int| 0 <= k < r.unwrap().0.parts@.len() ==> !(#[trigger] r.unwrap().0.parts@[k]).vars@.contains(var)),
@@ impl<C: CellType> Expr<C> > fn prod_inc_of @ loop 1 before
            proof {
                C::facts();
                assert(self.parts@.take(0) =~= Seq::<ExprPart<C>>::empty());
                assert forall|rho: spec_fn(isize) -> nat| #[trigger] sum_parts(self.parts@.take(0), rho) == sum_parts(parts@, rho) + mul.v() * rho(var) by {
                    lemma_sum_empty::<C>(rho);
                    assert(parts@ =~= Seq::<ExprPart<C>>::empty());
                    assert(0 * rho(var) == 0);
                }
            }
@@ impl<C: CellType> Expr<C> > fn prod_inc_of @ loop 1
                invariant
                    one_single(self.parts@, var),
                    forall|k: int| 0 <= k < self.parts@.len() ==> !(#[trigger] self.parts@[k]).vars@.contains(var) || self.parts@[k].vars@.len() == 1,
                    forall|rho: spec_fn(isize) -> nat|
                        #[trigger] sum_parts(self.parts@.take(it1.index@ as int), rho) == sum_parts(parts@, rho) + mul.v() * rho(var),
                    (forall|k: int| 0 <= k < it1.index@ ==> !single(#[trigger] self.parts@[k], var)) ==> mul.v() == 0,
                    forall|k: int| 0 <= k < parts@.len() ==> !(#[trigger] parts@[k]).vars@.contains(var),
@@ impl<C: CellType> Expr<C> > fn prod_inc_of @ loop 1 body_start
                let ghost k = it1.index@ as int;
                let ghost parts0 = parts@;
                let ghost mul0 = mul;
                proof {
                    assert(self.parts@.take(k + 1) =~= self.parts@.take(k).push(self.parts@[k]));
                    assert(*part == self.parts@[k]);
                }
@@ impl<C: CellType> Expr<C> > fn prod_inc_of @ if 2 then_tail
                    proof {
                        let c = parts@.last();
                        assert(parts@ =~= parts0.push(c));
                        assert(c.coef == part.coef && c.vars@ == part.vars@);
                        if part.vars@.len() == 1 {
                            assert(part.vars@ =~= seq![part.vars@[0]]);
                            assert(!part.vars@.contains(var)) by {
                                if part.vars@.contains(var) { let i = choose|i: int| 0 <= i < part.vars@.len() && part.vars@[i] == var; assert(i == 0); }
                            }
                        }
                        assert forall|rho: spec_fn(isize) -> nat|
                            #[trigger] sum_parts(self.parts@.take(k + 1), rho) == sum_parts(parts@, rho) + mul.v() * rho(var) by {
                            lemma_sum_push(self.parts@.take(k), self.parts@[k], rho);
                            lemma_sum_push(parts0, c, rho);
                            assert(pval(c, rho) == pval(*part, rho));
                        }
                        assert(!single(self.parts@[k], var));
                    }
@@ impl<C: CellType> Expr<C> > fn prod_inc_of @ if 2 else_tail
                    proof {
                        assert(single(self.parts@[k], var));
                        // no earlier part is the plain variable (like terms are collected)
                        assert forall|j: int| 0 <= j < k implies !single(#[trigger] self.parts@[j], var) by { }
                        assert(mul0.v() == 0);
                        assert(part.vars@ =~= seq![var]);
                        assert forall|rho: spec_fn(isize) -> nat|
                            #[trigger] sum_parts(self.parts@.take(k + 1), rho) == sum_parts(parts@, rho) + mul.v() * rho(var) by {
                            lemma_sum_push(self.parts@.take(k), self.parts@[k], rho);
                            lemma_prod_single(var, rho);
                            assert(0 * rho(var) == 0);
                        }
                    }
@@ impl<C: CellType> Expr<C> > fn prod_inc_of @ loop 1 after
            proof {
                let m = m_of(C::bits());
                lemma_pow2_pos(C::bits());
                assert(self.parts@.take(self.parts@.len() as int) =~= self.parts@);
                assert forall|rho: spec_fn(isize) -> nat|
                    (#[trigger] sum_parts(self.parts@, rho)) as int % m == (mul.v() * rho(var) + (sum_parts(parts@, rho) as int) % m) % m by {
                    lemma_add_mod_noop_right((mul.v() * rho(var)) as int, sum_parts(parts@, rho) as int, m);
                }
            }

@@ impl<C: CellType> Expr<C> > fn inc_of @ shape
if for if else
@@ impl<C: CellType> Expr<C> > fn inc_of @ body_start
        proof { C::eq_all(); C::facts(); }
@@ impl<C: CellType> Expr<C> > fn inc_of @ d11 1
            invariant d11_1_i <= self.parts@.len(),
                <C as PartialEqSpec>::obeys_eq_spec(), forall|a: C, b: C| #[trigger] a.eq_spec(&b) == (a.v() == b.v()), C::ONE.v() == 1,
                d11_1 == (exists|k: int| 0 <= k < d11_1_i && (#[trigger] self.parts@[k]).coef.v() == 1 && single(self.parts@[k], var)),
            decreases self.parts@.len() - d11_1_i
@@ impl<C: CellType> Expr<C> > fn inc_of @ d11 2
            invariant d11_2_i <= self.parts@.len(),
                d11_2 == (forall|k: int| 0 <= k < d11_2_i ==> !(#[trigger] self.parts@[k]).vars@.contains(var) || self.parts@[k].vars@.len() == 1),
            decreases self.parts@.len() - d11_2_i
@@ impl<C: CellType> Expr<C> > fn inc_of @ d6
@@ impl<C: CellType> Expr<C> > fn inc_of @ d3 r
@@ impl<C: CellType> Expr<C> > fn inc_of @ sig
        // "increment-of decomposition recomposes to the original value":  value == [var] + rest, and
        // `rest` no longer mentions `var`.  GIVEN that like terms are collected.
        requires one_single(self.parts@, var)
        ensures r.is_some() ==> (forall|rho: spec_fn(isize) -> nat|
                    #[trigger] eval(self, rho) == (rho(var) + eval(&r.unwrap(), rho)) % m_of(C::bits()))
                && (forall|k: int| 0 <= k < r.unwrap().parts@.len() ==> !(#[trigger] r.unwrap().parts@[k]).vars@.contains(var)),
@@ impl<C: CellType> Expr<C> > fn inc_of @ if 1 then_start
            let ghost jx = choose|k: int| 0 <= k < self.parts@.len() && (#[trigger] self.parts@[k]).coef.v() == 1 && single(self.parts@[k], var);
@@ impl<C: CellType> Expr<C> > fn inc_of @ loop 1 before
            proof {
                assert(self.parts@.take(0) =~= Seq::<ExprPart<C>>::empty());
                assert forall|rho: spec_fn(isize) -> nat| #[trigger] sum_parts(self.parts@.take(0), rho) == sum_parts(parts@, rho) by {
                    lemma_sum_empty::<C>(rho);
                    assert(parts@ =~= Seq::<ExprPart<C>>::empty());
                }
            }
@@ impl<C: CellType> Expr<C> > fn inc_of @ loop 1
                invariant
                    one_single(self.parts@, var),
                    0 <= jx < self.parts@.len(), self.parts@[jx].coef.v() == 1, single(self.parts@[jx], var),
                    forall|k: int| 0 <= k < self.parts@.len() ==> !(#[trigger] self.parts@[k]).vars@.contains(var) || self.parts@[k].vars@.len() == 1,
                    forall|rho: spec_fn(isize) -> nat|
                        #[trigger] sum_parts(self.parts@.take(it1.index@ as int), rho) == sum_parts(parts@, rho) + (if jx < it1.index@ { rho(var) } else { 0 }),
                    forall|k: int| 0 <= k < parts@.len() ==> !(#[trigger] parts@[k]).vars@.contains(var),
@@ impl<C: CellType> Expr<C> > fn inc_of @ loop 1 body_start
                let ghost k = it1.index@ as int;
                let ghost parts0 = parts@;
                proof {
                    assert(self.parts@.take(k + 1) =~= self.parts@.take(k).push(self.parts@[k]));
                    assert(*part == self.parts@[k]);
                }
@@ impl<C: CellType> Expr<C> > fn inc_of @ if 2 then_tail
                    proof {
                        let c = parts@.last();
                        assert(parts@ =~= parts0.push(c));
                        assert(c.coef == part.coef && c.vars@ == part.vars@);
                        if part.vars@.len() == 1 {
                            assert(!part.vars@.contains(var)) by {
                                if part.vars@.contains(var) { let i = choose|i: int| 0 <= i < part.vars@.len() && part.vars@[i] == var; assert(i == 0); }
                            }
                        }
                        assert(!single(self.parts@[k], var));
                        assert(k != jx);
                        assert forall|rho: spec_fn(isize) -> nat|
                            #[trigger] sum_parts(self.parts@.take(k + 1), rho) == sum_parts(parts@, rho) + (if jx < k + 1 { rho(var) } else { 0 }) by {
                            lemma_sum_push(self.parts@.take(k), self.parts@[k], rho);
                            lemma_sum_push(parts0, c, rho);
                            assert(pval(c, rho) == pval(*part, rho));
                        }
                    }
@@ impl<C: CellType> Expr<C> > fn inc_of @ loop 1 body_end
                proof {
                    if parts@ == parts0 {
                        // the dropped part is the plain variable: it is THE one with coefficient 1
                        assert(single(self.parts@[k], var));
                        assert(k == jx) by { if k < jx { assert(!(single(self.parts@[k], var) && single(self.parts@[jx], var))); } else if jx < k { assert(!(single(self.parts@[jx], var) && single(self.parts@[k], var))); } }
                        assert(part.vars@ =~= seq![var]);
                        assert forall|rho: spec_fn(isize) -> nat|
                            #[trigger] sum_parts(self.parts@.take(k + 1), rho) == sum_parts(parts@, rho) + (if jx < k + 1 { rho(var) } else { 0 }) by {
                            lemma_sum_push(self.parts@.take(k), self.parts@[k], rho);
                            lemma_prod_single(var, rho);
                            assert(1 * rho(var) == rho(var));
                        }
                    }
                }
@@ impl<C: CellType> Expr<C> > fn inc_of @ loop 1 after
            proof {
                let m = m_of(C::bits());
                lemma_pow2_pos(C::bits());
                assert(self.parts@.take(self.parts@.len() as int) =~= self.parts@);
                assert forall|rho: spec_fn(isize) -> nat|
                    (#[trigger] sum_parts(self.parts@, rho)) as int % m == (rho(var) + (sum_parts(parts@, rho) as int) % m) % m by {
                    lemma_add_mod_noop_right(rho(var) as int, sum_parts(parts@, rho) as int, m);
                }
            }

#@ ---------------------------------------------------------------- small observers
@@ impl<C: CellType> Expr<C> > fn is_zero @ d3 r
@@ impl<C: CellType> Expr<C> > fn is_zero @ sig
        ensures r ==> forall|rho: spec_fn(isize) -> nat| #[trigger] eval(self, rho) == 0
@@ impl<C: CellType> Expr<C> > fn is_zero @ body_start
        proof { lemma_pow2_pos(C::bits()); lemma_small_mod(0, pow2(C::bits())); }

@@ impl<C: CellType> Expr<C> > fn add_count @ d3 r
@@ impl<C: CellType> Expr<C> > fn add_count @ sig
        ensures r == if self.parts@.len() == 0 { 0int } else { self.parts@.len() - 1 }

@@ impl<C: CellType> Expr<C> > fn constant @ shape
if else if else
@@ impl<C: CellType> Expr<C> > fn constant @ d3 r
@@ impl<C: CellType> Expr<C> > fn constant @ sig
        // "constant() == Some(c)  ==>  the expression evaluates to c under every assignment"
        ensures r.is_some() ==> forall|rho: spec_fn(isize) -> nat| #[trigger] eval(self, rho) == r.unwrap().v(),
                r == spec_constant(self),
@@ impl<C: CellType> Expr<C> > fn constant @ body_start
        proof {
            C::facts(); lemma_pow2_pos(C::bits()); lemma_small_mod(0, pow2(C::bits()));
            if self.parts@.len() == 1 && self.parts@[0].vars@.len() == 0 {
                let p = self.parts@[0];
                C::v_lt(p.coef); lemma_small_mod(p.coef.v(), pow2(C::bits()));
                assert(self.parts@ =~= seq![p]);
                assert(p.vars@ =~= Seq::<isize>::empty());
                assert forall|rho: spec_fn(isize) -> nat| #[trigger] sum_parts(self.parts@, rho) == p.coef.v() by {
                    lemma_sum_single(p, rho);
                    assert(p.coef.v() * 1 == p.coef.v());
                }
            }
        }

@@ impl<C: CellType> Expr<C> > fn constant_part @ shape
if else
@@ impl<C: CellType> Expr<C> > fn constant_part @ d3 r
@@ impl<C: CellType> Expr<C> > fn constant_part @ sig
        // GIVEN the sorted-by-vars invariant in the form the function relies on (a constant part,
        // if any, comes first and is unique), the result is the value at the all-zero assignment.
        requires forall|k: int| 1 <= k < self.parts@.len() ==> (#[trigger] self.parts@[k]).vars@.len() > 0
        ensures r.v() == eval(self, |x: isize| 0nat)
@@ impl<C: CellType> Expr<C> > fn constant_part @ body_start
        proof {
            C::facts(); lemma_pow2_pos(C::bits()); lemma_small_mod(0, pow2(C::bits()));
            let zero = |x: isize| 0nat;
            lemma_sum_zero_tail(self.parts@, zero);
            if self.parts@.len() > 0 {
                let p = self.parts@[0];
                C::v_lt(p.coef); lemma_small_mod(p.coef.v(), pow2(C::bits()));
                if p.vars@.len() == 0 {
                    assert(p.vars@ =~= Seq::<isize>::empty());
                    assert(p.coef.v() * 1 == p.coef.v());
                } else {
                    lemma_prod_zero(p.vars@, zero);
                    assert(p.coef.v() * 0 == 0);
                }
            }
        }

@@ impl<C: CellType> Expr<C> > fn identity @ shape
if else
@@ impl<C: CellType> Expr<C> > fn identity @ d3 r
@@ impl<C: CellType> Expr<C> > fn identity @ sig
        ensures r.is_some() ==> forall|rho: spec_fn(isize) -> nat|
            #[trigger] eval(self, rho) == rho(r.unwrap()) as int % m_of(C::bits())
@@ impl<C: CellType> Expr<C> > fn identity @ body_start
        proof {
            C::facts(); C::eq_all(); lemma_pow2_pos(C::bits());
            if self.parts@.len() == 1 && self.parts@[0].coef.v() == 1 && self.parts@[0].vars@.len() == 1 {
                let p = self.parts@[0];
                let x = p.vars@[0];
                assert(self.parts@ =~= seq![p]);
                assert(p.vars@ =~= seq![x]);
                assert forall|rho: spec_fn(isize) -> nat| #[trigger] sum_parts(self.parts@, rho) == rho(x) by {
                    lemma_sum_single(p, rho);
                    lemma_prod_single(x, rho);
                    assert(1 * rho(x) == rho(x));
                }
            }
        }

@@ impl<C: CellType> Expr<C> > fn const_inc_of @ shape
if else if else
@@ impl<C: CellType> Expr<C> > fn const_inc_of @ d3 r
@@ impl<C: CellType> Expr<C> > fn const_inc_of @ sig
        // "const_inc_of(x) == Some(c)  ==>  value == rho(x) + c"
        ensures r.is_some() ==> forall|rho: spec_fn(isize) -> nat|
            #[trigger] eval(self, rho) == (rho(var) + r.unwrap().v()) as int % m_of(C::bits())
@@ impl<C: CellType> Expr<C> > fn const_inc_of @ body_start
        proof {
            C::facts(); C::eq_all(); lemma_pow2_pos(C::bits());
            if self.parts@.len() == 1 && self.parts@[0].coef.v() == 1 && self.parts@[0].vars@.len() == 1
                && self.parts@[0].vars@[0] == var {
                let p = self.parts@[0];
                assert(self.parts@ =~= seq![p]);
                assert(p.vars@ =~= seq![var]);
                assert forall|rho: spec_fn(isize) -> nat| #[trigger] sum_parts(self.parts@, rho) == rho(var) by {
                    lemma_sum_single(p, rho);
                    lemma_prod_single(var, rho);
                    assert(1 * rho(var) == rho(var));
                }
            }
            if self.parts@.len() == 2 && self.parts@[0].vars@.len() == 0 && self.parts@[1].coef.v() == 1
                && self.parts@[1].vars@.len() == 1 && self.parts@[1].vars@[0] == var {
                let p0 = self.parts@[0];
                let p1 = self.parts@[1];
                assert(self.parts@ =~= seq![p0].push(p1));
                assert(p0.vars@ =~= Seq::<isize>::empty());
                assert(p1.vars@ =~= seq![var]);
                assert forall|rho: spec_fn(isize) -> nat| #[trigger] sum_parts(self.parts@, rho) == p0.coef.v() + rho(var) by {
                    lemma_sum_push(seq![p0], p1, rho);
                    lemma_sum_single(p0, rho);
                    lemma_prod_single(var, rho);
                    assert(1 * rho(var) == rho(var));
                    assert(p0.coef.v() * 1 == p0.coef.v());
                }
            }
        }

#@ ---------------------------------------------------------------- evaluate
@@ impl<C: CellType> Expr<C> > fn evaluate @ shape
for for
@@ impl<C: CellType> Expr<C> > fn evaluate @ d6
@@ impl<C: CellType> Expr<C> > fn evaluate @ d2
@@ impl<C: CellType> Expr<C> > fn evaluate @ d3 r
@@ impl<C: CellType> Expr<C> > fn evaluate @ sig
        // for any deterministic total `func`: evaluate(func) == eval(self, the assignment func computes)
        requires forall|x: isize| func.requires((x,)),
                 forall|x: isize, y1: C, y2: C| func.ensures((x,), y1) && func.ensures((x,), y2) ==> y1 == y2,
        ensures forall|rho: spec_fn(isize) -> nat|
                    (forall|x: isize, y: C| #[trigger] func.ensures((x,), y) ==> y.v() == rho(x))
                    ==> r.v() == #[trigger] eval(self, rho),
@@ impl<C: CellType> Expr<C> > fn evaluate @ loop 1 before
        proof { C::facts(); lemma_pow2_pos(C::bits()); lemma_small_mod(0, pow2(C::bits())); }
@@ impl<C: CellType> Expr<C> > fn evaluate @ loop 1
            invariant
                forall|x: isize| func.requires((x,)),
                forall|rho: spec_fn(isize) -> nat|
                    (forall|x: isize, y: C| #[trigger] func.ensures((x,), y) ==> y.v() == rho(x))
                    ==> val.v() as int == (#[trigger] sum_parts(self.parts@.take(it1.index@ as int), rho)) as int % (pow2(C::bits()) as int),
@@ impl<C: CellType> Expr<C> > fn evaluate @ loop 1 body_start
            let ghost k = it1.index@ as int;
@@ impl<C: CellType> Expr<C> > fn evaluate @ loop 2 before
            proof {
                C::v_lt(part_val); lemma_pow2_pos(C::bits()); lemma_small_mod(part_val.v(), pow2(C::bits()));
                assert(part.vars@.take(0) =~= Seq::<isize>::empty());
                assert forall|rho: spec_fn(isize) -> nat| #[trigger] prod_vars(part.vars@.take(0), rho) == 1 by {}
                assert(part.coef.v() * 1 == part.coef.v());
            }
@@ impl<C: CellType> Expr<C> > fn evaluate @ loop 2
                invariant
                    forall|x: isize| func.requires((x,)),
                    forall|rho: spec_fn(isize) -> nat|
                        (forall|x: isize, y: C| #[trigger] func.ensures((x,), y) ==> y.v() == rho(x))
                        ==> part_val.v() as int == (part.coef.v() * #[trigger] prod_vars(part.vars@.take(it2.index@ as int), rho)) as int % (pow2(C::bits()) as int),
@@ impl<C: CellType> Expr<C> > fn evaluate @ loop 2 body_start
                let ghost j = it2.index@ as int;
                let ghost pv0 = part_val;
@@ impl<C: CellType> Expr<C> > fn evaluate @ loop 2 body_end
                proof {
                    let m = pow2(C::bits()) as int;
                    lemma_pow2_pos(C::bits());
                    assert forall|rho: spec_fn(isize) -> nat|
                        (forall|x: isize, y: C| #[trigger] func.ensures((x,), y) ==> y.v() == rho(x))
                        implies part_val.v() as int == (part.coef.v() * #[trigger] prod_vars(part.vars@.take(j + 1), rho)) as int % m by {
                        let vs = part.vars@;
                        assert(vs.take(j + 1) =~= vs.take(j).push(vs[j]));
                        lemma_prod_push(vs.take(j), vs[j], rho);
                        let a = (part.coef.v() * prod_vars(vs.take(j), rho)) as int;
                        let fv = rho(var) as int;
                        assert(pv0.v() as int == a % m);
                        assert(part_val.v() as int == (pv0.v() as int * fv) % m);
                        lemma_mul_mod_noop_left(a, fv, m);
                        assert(a * fv == (part.coef.v() * (prod_vars(vs.take(j), rho) * rho(vs[j]))) as int) by (nonlinear_arith)
                            requires a == (part.coef.v() * prod_vars(vs.take(j), rho)) as int, fv == rho(vs[j]) as int;
                    }
                }
@@ impl<C: CellType> Expr<C> > fn evaluate @ loop 2 after
            let ghost v0 = val;
@@ impl<C: CellType> Expr<C> > fn evaluate @ loop 1 body_end
            proof {
                let m = pow2(C::bits()) as int;
                lemma_pow2_pos(C::bits());
                assert forall|rho: spec_fn(isize) -> nat|
                    (forall|x: isize, y: C| #[trigger] func.ensures((x,), y) ==> y.v() == rho(x))
                    implies val.v() as int == (#[trigger] sum_parts(self.parts@.take(k + 1), rho)) as int % m by {
                    let ps = self.parts@;
                    assert(ps.take(k + 1) =~= ps.take(k).push(ps[k]));
                    lemma_sum_push(ps.take(k), ps[k], rho);
                    assert(part.vars@.take(part.vars@.len() as int) =~= part.vars@);
                    let a = sum_parts(ps.take(k), rho) as int;
                    let b = pval(ps[k], rho) as int;
                    assert(v0.v() as int == a % m);
                    assert(part_val.v() as int == b % m);
                    lemma_add_mod_noop(a, b, m);
                }
            }
@@ impl<C: CellType> Expr<C> > fn evaluate @ loop 1 after
        proof {
            assert(self.parts@.take(self.parts@.len() as int) =~= self.parts@);
        }

#@ ---------------------------------------------------------------- add
#@ eval(a.add(b)) == eval(a) + eval(b): the loop invariant
#@     eval(parts) + eval(a[i..]) + eval(b[j..]) == eval(a) + eval(b)
#@ is deliberately independent of the sortedness of the inputs (Expr::mul does not re-sort).
@@ impl<C: CellType> Expr<C> > fn add @ shape
while match if while while
@@ impl<C: CellType> Expr<C> > fn add @ d7 other
@@ impl<C: CellType> Expr<C> > fn add @ d3 r
@@ impl<C: CellType> Expr<C> > fn add @ sig
        ensures forall|rho: spec_fn(isize) -> nat|
            #[trigger] eval(&r, rho) == (eval(self, rho) + eval(other, rho)) % (pow2(C::bits()) as int),
            #@canary r.parts@.len() > self.parts@.len() + other.parts@.len(),
@@ impl<C: CellType> Expr<C> > fn add @ loop 1 before
        let ghost m = pow2(C::bits()) as int;
        proof {
            lemma_pow2_pos(C::bits()); C::eq_all(); C::facts();
            assert(self.parts@.skip(0) =~= self.parts@);
            assert(other.parts@.skip(0) =~= other.parts@);
            assert forall|rho: spec_fn(isize) -> nat| #[trigger] sum_parts(parts@, rho) == 0 by { lemma_sum_empty::<C>(rho); }
        }
@@ impl<C: CellType> Expr<C> > fn add @ loop 1
            invariant
                m == pow2(C::bits()) as int, m > 0,
                0 <= i <= self.parts@.len(), 0 <= j <= other.parts@.len(),
                forall|rho: spec_fn(isize) -> nat|
                    (#[trigger] sum_parts(parts@, rho) + sum_parts(self.parts@.skip(i as int), rho) + sum_parts(other.parts@.skip(j as int), rho)) as int % m
                    == (sum_parts(self.parts@, rho) + sum_parts(other.parts@, rho)) as int % m,
            decreases self.parts@.len() - i + other.parts@.len() - j
@@ impl<C: CellType> Expr<C> > fn add @ loop 1 body_start
            let ghost parts0 = parts@;
            let ghost i0 = i as int; let ghost j0 = j as int;
            proof {
                assert forall|rho: spec_fn(isize) -> nat| true implies
                    #[trigger] sum_parts(self.parts@.skip(i0), rho) == pval(self.parts@[i0], rho) + sum_parts(self.parts@.skip(i0 + 1), rho)
                    && sum_parts(other.parts@.skip(j0), rho) == pval(other.parts@[j0], rho) + sum_parts(other.parts@.skip(j0 + 1), rho) by {
                    lemma_sum_skip(self.parts@, i0, rho);
                    lemma_sum_skip(other.parts@, j0, rho);
                }
            }
@@ impl<C: CellType> Expr<C> > fn add @ match 1 arm 1 end
                    proof {
                        assert forall|rho: spec_fn(isize) -> nat| #[trigger] sum_parts(parts@, rho) == sum_parts(parts0, rho) + pval(self.parts@[i0], rho) by {
                            lemma_sum_push(parts0, parts@.last(), rho);
                            assert(parts@ =~= parts0.push(parts@.last()));
                        }
                    }
@@ impl<C: CellType> Expr<C> > fn add @ match 1 arm 2 end
                    proof {
                        assert forall|rho: spec_fn(isize) -> nat| #[trigger] sum_parts(parts@, rho) == sum_parts(parts0, rho) + pval(other.parts@[j0], rho) by {
                            lemma_sum_push(parts0, parts@.last(), rho);
                            assert(parts@ =~= parts0.push(parts@.last()));
                        }
                    }
@@ impl<C: CellType> Expr<C> > fn add @ match 1 arm 3 end
                    proof {
                        let pa = self.parts@[i0]; let pb = other.parts@[j0];
                        assert(pa.vars@ == pb.vars@);
                        C::eq_all(); C::facts();
                        assert(coef.v() as int == (pa.coef.v() + pb.coef.v()) as int % m);
                        if coef.v() != 0 {
                            assert(parts@ =~= parts0.push(parts@.last()));
                            assert(parts@.last().coef == coef && parts@.last().vars@ =~= pa.vars@);
                        } else {
                            assert(parts@ =~= parts0);
                        }
                        assert forall|rho: spec_fn(isize) -> nat| (#[trigger] sum_parts(parts@, rho)) as int % m == (sum_parts(parts0, rho) + pval(pa, rho) + pval(pb, rho)) as int % m by {
                            let pr = prod_vars(pa.vars@, rho) as int;
                            let ca = pa.coef.v() as int; let cb = pb.coef.v() as int;
                            assert(pval(pa, rho) + pval(pb, rho) == (ca + cb) * pr) by (nonlinear_arith)
                                requires pval(pa, rho) == ca * pr, pval(pb, rho) == cb * pr;
                            lemma_mul_mod_noop_left(ca + cb, pr, m);
                            if coef.v() != 0 {
                                assert(parts@ =~= parts0.push(parts@.last()));
                                lemma_sum_push(parts0, parts@.last(), rho);
                                assert(parts@.last().vars@ =~= pa.vars@);
                                assert(pval(parts@.last(), rho) == coef.v() * pr);
                                lemma_add_mod_noop_right(sum_parts(parts0, rho) as int, (ca + cb) * pr, m);
                                lemma_add_mod_noop_right(sum_parts(parts0, rho) as int, (coef.v() as int) * pr, m);
                            } else {
                                assert(parts@ =~= parts0);
                                assert((ca + cb) % m == 0);
                                assert(((ca + cb) % m) * pr == 0) by (nonlinear_arith) requires (ca + cb) % m == 0;
                                lemma_add_mod_noop_right(sum_parts(parts0, rho) as int, (ca + cb) * pr, m);
                                lemma_small_mod(0, m as nat);
                                lemma_add_mod_noop_right(sum_parts(parts0, rho) as int, 0, m);
                            }
                        }
                        assert forall|rho: spec_fn(isize) -> nat|
                            (#[trigger] sum_parts(parts@, rho) + sum_parts(self.parts@.skip(i as int), rho) + sum_parts(other.parts@.skip(j as int), rho)) as int % m
                            == (sum_parts(self.parts@, rho) + sum_parts(other.parts@, rho)) as int % m by {
                            let rest = (sum_parts(self.parts@.skip(i as int), rho) + sum_parts(other.parts@.skip(j as int), rho)) as int;
                            lemma_add_cong(sum_parts(parts@, rho) as int, (sum_parts(parts0, rho) + pval(pa, rho) + pval(pb, rho)) as int, rest, m);
                        }
                    }
@@ impl<C: CellType> Expr<C> > fn add @ loop 2
            invariant
                m == pow2(C::bits()) as int, m > 0,
                0 <= i <= self.parts@.len(), 0 <= j <= other.parts@.len(),
                forall|rho: spec_fn(isize) -> nat|
                    (#[trigger] sum_parts(parts@, rho) + sum_parts(self.parts@.skip(i as int), rho) + sum_parts(other.parts@.skip(j as int), rho)) as int % m
                    == (sum_parts(self.parts@, rho) + sum_parts(other.parts@, rho)) as int % m,
            decreases self.parts@.len() - i
@@ impl<C: CellType> Expr<C> > fn add @ loop 2 body_start
            let ghost parts0 = parts@; let ghost i0 = i as int;
@@ impl<C: CellType> Expr<C> > fn add @ loop 2 body_end
            proof {
                assert forall|rho: spec_fn(isize) -> nat|
                    #[trigger] sum_parts(parts@, rho) == sum_parts(parts0, rho) + pval(self.parts@[i0], rho)
                    && sum_parts(self.parts@.skip(i0), rho) == pval(self.parts@[i0], rho) + sum_parts(self.parts@.skip(i0 + 1), rho) by {
                    lemma_sum_push(parts0, parts@.last(), rho);
                    assert(parts@ =~= parts0.push(parts@.last()));
                    lemma_sum_skip(self.parts@, i0, rho);
                }
            }
@@ impl<C: CellType> Expr<C> > fn add @ loop 3
            invariant
                m == pow2(C::bits()) as int, m > 0,
                0 <= i <= self.parts@.len(), 0 <= j <= other.parts@.len(),
                forall|rho: spec_fn(isize) -> nat|
                    (#[trigger] sum_parts(parts@, rho) + sum_parts(self.parts@.skip(i as int), rho) + sum_parts(other.parts@.skip(j as int), rho)) as int % m
                    == (sum_parts(self.parts@, rho) + sum_parts(other.parts@, rho)) as int % m,
            decreases other.parts@.len() - j
@@ impl<C: CellType> Expr<C> > fn add @ loop 3 body_start
            let ghost parts0 = parts@; let ghost j0 = j as int;
@@ impl<C: CellType> Expr<C> > fn add @ loop 3 body_end
            proof {
                assert forall|rho: spec_fn(isize) -> nat|
                    #[trigger] sum_parts(parts@, rho) == sum_parts(parts0, rho) + pval(other.parts@[j0], rho)
                    && sum_parts(other.parts@.skip(j0), rho) == pval(other.parts@[j0], rho) + sum_parts(other.parts@.skip(j0 + 1), rho) by {
                    lemma_sum_push(parts0, parts@.last(), rho);
                    assert(parts@ =~= parts0.push(parts@.last()));
                    lemma_sum_skip(other.parts@, j0, rho);
                }
            }
@@ impl<C: CellType> Expr<C> > fn add @ loop 3 after
        proof {
            assert(self.parts@.skip(self.parts@.len() as int) =~= Seq::<ExprPart<C>>::empty());
            assert(other.parts@.skip(other.parts@.len() as int) =~= Seq::<ExprPart<C>>::empty());
            assert forall|rho: spec_fn(isize) -> nat|
                (#[trigger] sum_parts(parts@, rho) as int) % m == ((sum_parts(self.parts@, rho) as int) % m + (sum_parts(other.parts@, rho) as int) % m) % m by {
                lemma_sum_empty::<C>(rho);
                lemma_add_mod_noop(sum_parts(self.parts@, rho) as int, sum_parts(other.parts@, rho) as int, m);
            }
        }
